"""T2 stream `session`: the real Client driven through the public API (manual network loop,
fake transport, virtual clock) vs `Paho.Model.Session`.

One op per line; one observation line per op: `<events joined by ;> | <state probe>`.
The probe reads (never writes) private attributes so that the abstraction map
model state <-> client state is checked after every op.
"""
from __future__ import annotations

import wire
from common import hx, unhx
from harness import PROTO, V1, feed_pkt
from world import SelfDeadlock, World, name_locks, pc, raw

CS = pc._ConnectionState
ST = {CS.MQTT_CS_NEW: "new", CS.MQTT_CS_CONNECT_ASYNC: "async", CS.MQTT_CS_CONNECTING: "connecting",
      CS.MQTT_CS_CONNECTED: "connected", CS.MQTT_CS_CONNECTION_LOST: "lost",
      CS.MQTT_CS_DISCONNECTING: "disconnecting", CS.MQTT_CS_DISCONNECTED: "disconnected"}
MS = {0: "inv", 1: "pub", 2: "wpa", 3: "wprec", 4: "rprel", 5: "wprel", 6: "rpcomp", 7: "wpcomp", 8: "sprec", 9: "que"}


def parse_cfg(words):
    cfg = dict(proto=4, clean=1, N=20, M=0, manual=0, rof=1, ext=0, ka=60, sup=0, cbpub=-1, cbn=0, cbw=0, cbop=0)
    for w in words:
        k, _, v = w.partition("=")
        if k in cfg:
            cfg[k] = int(v)
    return cfg


class RealSession:
    """the real client + fake world for one case"""

    def __init__(self, cfg):
        self.cfg = cfg
        self.w = World()
        self.w.install()
        self.ev = []
        self.infos = []
        self.raise_left = 0
        proto = cfg["proto"]
        args = dict(client_id="cid", protocol=PROTO[proto], reconnect_on_failure=bool(cfg["rof"]),
                    manual_ack=bool(cfg["manual"]))
        if proto != 5:
            args["clean_session"] = bool(cfg["clean"])
        import warnings
        warnings.simplefilter("ignore", DeprecationWarning)
        c = pc.Client(V1, **args)
        name_locks(c)
        c.suppress_exceptions = bool(cfg["sup"])
        c.max_inflight_messages_set(cfg["N"])
        c.max_queued_messages_set(cfg["M"])
        self.c = c
        ev = self.ev
        w = self.w
        w.tx_hook = lambda sock, data: ev.append(f"tx{sock.conn}:{hx(bytes(data))}") if len(data) else None
        orig_close = None

        def log_close(conn):
            ev.append(f"sclose{conn}")
        w.close_hook = log_close
        w.open_hook = lambda conn: ev.append(f"sopen{conn}")
        # (cbw=3: the application publishes from inside on_pre_connect, i.e. after reconnect() has rewound the stored messages
        # and before the new socket exists)
        c.on_pre_connect = lambda cl, ud: (ev.append("on_pre_connect"), self.nested(cl) if cfg.get("cbw", 0) == 3 else None)
        c.on_connect_fail = lambda cl, ud: ev.append("on_connect_fail")
        if proto == 5:
            c.on_connect = lambda cl, ud, flags, reason, props: (ev.append(f"on_connect:{reason.value}:{flags['session present']}"), self.nested(cl) if cfg.get("cbw", 0) == 2 and reason.value == 0 else None)
            c.on_disconnect = lambda cl, ud, rc, props=None: (ev.append(self._disc(rc)), self.nested_reconnect(cl))
            c.on_subscribe = lambda cl, ud, mid, codes, props: ev.append(f"on_subscribe:{mid}:{codes[0].value}")
            c.on_unsubscribe = lambda cl, ud, mid, props, codes: ev.append(f"on_unsubscribe:{mid}")
        else:
            c.on_connect = lambda cl, ud, flags, rc: (ev.append(f"on_connect:{int(rc)}:{flags['session present']}"), self.nested(cl) if cfg.get("cbw", 0) == 2 and int(rc) == 0 else None)
            c.on_disconnect = lambda cl, ud, rc: (ev.append(self._disc(rc)), self.nested_reconnect(cl))
            c.on_subscribe = lambda cl, ud, mid, granted: ev.append(f"on_subscribe:{mid}:{granted[0]}")
            c.on_unsubscribe = lambda cl, ud, mid: ev.append(f"on_unsubscribe:{mid}")
        self.cb_left = cfg.get("cbn", 0)

        def nested(cl):
            # the application publishes from inside a callback (stream `reentry`, no Lean model)
            if cfg.get("cbpub", -1) >= 0 and self.cb_left > 0:
                self.cb_left -= 1
                what = cfg.get("cbop", 0)
                if what == 1:
                    r, mid = cl.subscribe("cb/s", 1)
                    ev.append(f"cbsub:{int(r)}:{mid}")
                elif what == 2:
                    r, mid = cl.unsubscribe("cb/s")
                    ev.append(f"cbunsub:{int(r)}:{mid}")
                else:
                    info = cl.publish("cb/t", b"cb", cfg["cbpub"])
                    self.infos.append(info)
                    ev.append(f"cbpub:{cfg['cbpub']}:{int(info.rc)}:{info.mid}")
        self.nested = nested

        def nested_reconnect(cl):
            # cbw=4: the application re-establishes the connection from inside on_disconnect (the documented pattern with
            # the manual loop); never with socket callbacks installed (known finding F17: that call blocks)
            if cfg.get("cbw", 0) == 4 and self.cb_left > 0 and not cfg["ext"]:
                self.cb_left -= 1
                r = cl.reconnect()
                ev.append(f"cbreconnect:{int(r)}")
        self.nested_reconnect = nested_reconnect

        def on_publish(cl, ud, mid):
            ev.append(f"on_publish:{mid}")
            if cfg.get("cbw", 0) != 0:
                return
            if cfg.get("cbpub", -1) >= 0 and self.cb_left > 0:
                # the application publishes from inside on_publish (stream `reentry`, no Lean model)
                self.cb_left -= 1
                info = cl.publish("cb/t", b"cb", cfg["cbpub"])
                self.infos.append(info)
                ev.append(f"cbpub:{cfg['cbpub']}:{int(info.rc)}:{info.mid}")
        c.on_publish = on_publish
        c.on_message = self._on_message
        if cfg["ext"]:
            c.on_socket_open = lambda cl, ud, s: ev.append(f"open{raw(s).conn}")
            c.on_socket_close = lambda cl, ud, s: ev.append(f"close{raw(s).conn}")
            c.on_socket_register_write = lambda cl, ud, s: ev.append(f"regw{raw(s).conn}")
            c.on_socket_unregister_write = lambda cl, ud, s: ev.append(f"unregw{raw(s).conn}")

    @staticmethod
    def _disc(rc):
        if rc is None:
            return "on_disconnect:0:1"
        if isinstance(rc, int):
            return f"on_disconnect:{int(rc)}:0"
        return f"on_disconnect:{rc.value}:1"

    def _on_message(self, cl, ud, m):
        self.ev.append(f"on_message:{m.mid}:{m.qos}:{int(m.dup)}:{int(m.retain)}:{hx(m._topic)}:{hx(bytes(m.payload))}")
        if self.cfg.get("cbw", 0) == 1:
            self.nested(cl)
        if self.raise_left > 0:
            self.raise_left -= 1
            raise RuntimeError("scripted")

    def probe(self):
        c = self.c
        s = raw(c._sock)
        out = ",".join(f"{m.mid}.{MS[int(m.state)]}.{int(bool(m.dup))}" for m in c._out_messages.values())
        inm = ",".join(str(m) for m in c._in_messages.keys())
        q = f"{len(c._out_packet)}.{c._out_packet[0]['pos']}" if c._out_packet else "0.0"
        infos = ",".join(f"{int(i.rc)}{'+' if i._published else '-'}" for i in self.infos if i is not None)
        return (f"st={ST[c._state]} sock={s.conn if s else 0} ww={int(c.want_write())} rw={int(c._registered_write)} "
                f"infl={c._inflight_messages} out=[{out}] in=[{inm}] q={q} ping={int(c._ping_t > 0)} "
                f"mid={c._last_mid} proto={int(c._protocol)} infos={infos}")

    def rx_bytes(self, t):
        p = self.cfg["proto"] if self.c._protocol == PROTO[self.cfg["proto"]] else int(self.c._protocol)
        p = int(self.c._protocol)
        k = t[1]
        if k == "connack":
            return wire.enc_connack(p, sp=int(t[2]), rc=int(t[3]))
        if k in ("puback", "pubrec", "pubrel", "pubcomp"):
            rc = int(t[3][3:]) if len(t) > 3 and t[3].startswith("rc=") and p == 5 else None
            return wire.enc_ack(p, getattr(wire, k.upper()), int(t[2]), rc=rc)
        if k == "publish":
            return wire.enc_publish(p, unhx(t[6]), unhx(t[7]), qos=int(t[2]), mid=int(t[3]), dup=int(t[4]), retain=int(t[5]))
        if k == "suback":
            return wire.enc_suback(p, int(t[2]), [int(t[3])])
        if k == "unsuback":
            return wire.enc_unsuback(p, int(t[2]), codes=[0], props=[])
        if k == "pingreq":
            return b"\xc0\x00"
        if k == "pingresp":
            return wire.enc_pingresp()
        if k == "disconnect":
            return wire.enc_disconnect(None if t[2] == "-" else int(t[2]))
        if k == "badcmd":
            return b"\xf0\x00"
        if k == "malformed":
            return b"\x40\x01\x00"
        raise ValueError(k)

    def op(self, t):
        c, w, ev = self.c, self.w, self.ev
        k = t[0]
        if k in ("connect", "reconnect"):
            w.attempt_script.clear()
            w.attempt_script.append("ok" if t[1] == "ok" else "refuse")
            if k == "connect":
                if self.cfg["proto"] == 5:
                    cs = self.cfg["clean"]
                    r = c.connect("broker", 1883, self.cfg["ka"], clean_start=(pc.MQTT_CLEAN_START_FIRST_ONLY if cs == 3 else bool(cs)))
                else:
                    r = c.connect("broker", 1883, self.cfg["ka"])
            else:
                r = c.reconnect()
            ev.append(f"ret:{int(r)}")
        elif k == "connect_async":
            c.connect_async("broker", 1883, self.cfg["ka"])
        elif k == "rx":
            s = w.cur() if c._sock is not None else None
            if len(t) >= 2 and t[1] == "connack" and len(t) == 5:
                w.attempt_script.clear()
                w.attempt_script.append("ok" if t[4] == "ok" else "refuse")
            elif t[1] == "connack":
                w.attempt_script.clear()
            if s is not None:
                if t[1] == "eof":
                    s.feed_eof()
                elif t[1] == "err":
                    s.feed_err()
                elif t[1] != "none":
                    s.feed(self.rx_bytes(t))
            r = c.loop_read()
            ev.append(f"ret:{int(r)}")
            # drop what the client did not consume (it is addressed to a dead connection)
            for so in w.socks:
                so.inq.clear()
        elif k == "publish":
            slot = len(self.infos)
            self.infos.append(None)       # (a publish made from inside a callback during this call comes after it)
            try:
                info = c.publish(unhx(t[2]).decode(), unhx(t[3]), int(t[1]), bool(int(t[4])))
            except BaseException:
                del self.infos[slot]
                raise
            self.infos[slot] = info
            ev.append(f"ret:{int(info.rc)}:{info.mid}")
        elif k == "subscribe":
            r, mid = c.subscribe(unhx(t[1]).decode(), int(t[2]))
            ev.append(f"ret:{int(r)}" + (f":{mid}" if mid is not None else ""))
        elif k == "unsubscribe":
            r, mid = c.unsubscribe(unhx(t[1]).decode())
            ev.append(f"ret:{int(r)}" + (f":{mid}" if mid is not None else ""))
        elif k == "disconnect":
            ev.append(f"ret:{int(c.disconnect())}")
        elif k == "loop_write":
            ev.append(f"ret:{int(c.loop_write())}")
        elif k == "loop_misc":
            ev.append(f"ret:{int(c.loop_misc())}")
        elif k == "tick":
            w.clock.advance_ms(int(t[1]))
        elif k == "send":
            s = raw(c._sock)
            if s is not None:
                s.outscript.clear()
                if t[1] != "-":
                    for d in t[1].split(","):
                        s.outscript.append(("block",) if d == "b" else ("error",) if d == "e" else ("accept", int(d[1:])))
        elif k == "ack":
            ev.append(f"ret:{int(c.ack(int(t[1]), int(t[2])))}")
        elif k == "raise_on_message":
            self.raise_left = int(t[1])
        elif k == "setmid":
            # fast-forward of the id generator: stands for the allocations made in between
            if t[1] == "live":
                mids = list(c._out_messages.keys())
                if mids:
                    m = mids[int(t[2]) % len(mids)]
                    c._last_mid = 65535 if m <= 1 else m - 1
            elif t[1] == "edge":
                c._last_mid = 65534 - int(t[2])
            else:
                # the start of a block of 1000 ids that holds no id still in use (after the wrap-around the next block up
                # may be one the run has already used)
                live = set(c._out_messages.keys())
                cand = (max([c._last_mid] + list(live)) // 1000 + 1) * 1000 % 65000
                for _ in range(70):
                    if not any(cand < m <= cand + 999 for m in live):
                        break
                    cand = (cand + 1000) % 65000
                c._last_mid = cand
        else:
            raise ValueError("bad op " + k)


def run_real(case):
    obs = []
    rs = None
    for line in case:
        t = line.split()
        if t[0] == "cfg":
            rs = RealSession(parse_cfg(t[1:]))
            obs.append("ok | " + rs.probe())
            continue
        rs.ev.clear()
        try:
            rs.op(t)
        except SelfDeadlock as e:
            rs.ev.append(f"deadlock:{e}")
        except Exception as e:  # noqa: BLE001
            rs.ev.append(f"exc:{type(e).__name__}")
        obs.append(";".join(rs.ev) + " | " + rs.probe())
    return obs


# ------------------------------------------------------------------ generator
TOPICS = [b"t", b"a/b", b"x"]


class Shadow:
    """rough shadow of the client used to generate mostly-valid conversations"""

    def __init__(self, cfg):
        self.cfg = cfg
        self.sock = False
        self.connected = False
        self.mid = 0
        self.out = {}     # mid -> (qos, phase)  phase: 'sent' | 'rec'
        self.inq2 = set()
        self.subs = []
        self.hosted = False
        self.pending = []


def gen_backlog(rng, nested=False):
    """scripted: a full in-flight window with a backlog waiting behind it when the connection is lost; reconnect attempts that
    fail, publishes while there is no connection (and, `nested`, from inside on_pre_connect: after reconnect() has rewound
    the stored messages, before the new socket exists); then the connection is re-established, acknowledgements arrive one
    by one in publish() order and the application publishes again.  Every accepted message must be (re)transmitted on the
    new connection, in publish() order, as soon as the window admits it."""
    proto = rng.choice([4, 4, 5, 3])
    n = rng.choice([1, 2, 2, 3])
    cfg = dict(proto=proto, clean=(rng.choice([0, 0, 1, 3]) if proto == 5 else rng.choice([0, 0, 1])), N=n, M=0, manual=0, rof=1,
               ext=0, ka=rng.choice([0, 60]), sup=0)
    if nested:
        cfg.update(cbpub=rng.choice([1, 1, 2]), cbn=rng.choice([1, 1, 2]), cbw=3, cbop=0)
    cb_left = cfg.get("cbn", 0)
    case = ["cfg " + " ".join(f"{k}={v}" for k, v in cfg.items())]
    msgs = []         # (mid, qos) of every QoS 1/2 message accepted so far, in publish() order
    mid = [0]

    def pub(q=None):
        q = q or rng.choice([1, 1, 2])
        mid[0] += 1
        msgs.append((mid[0], q))
        case.append(f"publish {q} {hx(b't/' + bytes([97 + rng.randrange(4)]))} {hx(bytes([rng.randrange(256)]))} 0")

    def conn(op):
        nonlocal cb_left
        case.append(op)
        if nested and cb_left > 0:        # on_pre_connect fires in every connect() / reconnect(): the nested publish draws an id
            cb_left -= 1
            mid[0] += 1
            msgs.append((mid[0], cfg["cbpub"]))

    conn("connect ok")
    case.append("rx connack 0 0")
    for _ in range(n + rng.randint(1, 3)):
        pub()
    recd = set()
    if rng.random() < 0.4:
        # part of the window makes progress before the loss
        m0, q0 = msgs[0]
        if q0 == 2:
            case.append(f"rx pubrec {m0}")
            recd.add(m0)
    case.append(rng.choice(["rx eof", "rx err"]))
    for _ in range(rng.choice([0, 1, 1, 2])):
        conn("reconnect refuse")
        if rng.random() < 0.7:
            pub()
    if rng.random() < 0.3:
        pub()
    conn("reconnect ok")
    if rng.random() < 0.25:
        pub()
    case.append(f"rx connack {int(cfg['clean'] == 0)} 0")
    extra = rng.randint(0, 2)
    persistent = (cfg["clean"] == 0) if proto != 5 else cfg["clean"] in (0, 3)
    k = 0
    while k < len(msgs):
        m, q = msgs[k]
        if q == 1:
            case.append(f"rx puback {m}")
        else:
            if not (m in recd and persistent):
                case.append(f"rx pubrec {m}")
            case.append(f"rx pubcomp {m}")
        if extra and rng.random() < 0.4:
            extra -= 1
            pub()
        if rng.random() < 0.1:
            case.append("rx none")
        k += 1
    return case


def gen_kafail(rng):
    """scripted: the connection dies silently; the first write that notices is the keep-alive PINGREQ (or an acknowledgement);
    the application calls reconnect() inside on_disconnect; the new connection must then be kept alive like any other:
    pinged after K idle, not closed while its PINGREQs are answered"""
    proto = rng.choice([4, 4, 5, 3])
    ka = rng.choice([1, 2, 10, 60])
    k = ka * 1000
    cfg = dict(proto=proto, clean=rng.choice([0, 1]), N=rng.choice([1, 2, 20]), M=0, manual=0, rof=1, ext=0, ka=ka, sup=0,
               cbpub=1, cbn=1, cbw=4, cbop=0)
    case = ["cfg " + " ".join(f"{a}={b}" for a, b in cfg.items()), "connect ok", "rx connack 0 0"]
    if rng.random() < 0.5:
        case += [f"tick {k}", "loop_misc", "rx pingresp"]
    if rng.random() < 0.6:
        case += [f"tick {k}", "send e", "loop_misc"]                 # the PINGREQ cannot be written
    else:
        case += [f"tick {rng.choice([0, 500])}", "send e", f"rx publish 1 7 0 0 {hx(b't')} {hx(b'i')}"]   # the PUBACK cannot
    case += ["rx connack 0 0"]
    for _ in range(rng.randint(1, 3)):
        d = rng.choice([0, 0, 500])
        case += [f"tick {k - d}", "loop_misc"] + ([f"tick {d}", "loop_misc"] if d else []) + ["rx pingresp"]
    case += [f"tick {k // 2}", "loop_misc"]
    return case


def gen_case(rng, tier, weights=None, maxlen=None):
    proto = rng.choice([4, 4, 4, 5, 5, 3])
    cfg = dict(proto=proto,
               clean=(rng.choice([0, 1, 3, 3]) if proto == 5 else rng.choice([0, 1])),
               N=rng.choice([0, 1, 1, 2, 3, 5, 20]), M=rng.choice([0, 0, 0, 1, 4, 8]),
               manual=int(rng.random() < 0.2), rof=int(rng.random() < 0.85), ext=int(rng.random() < 0.25),
               ka=rng.choice([0, 1, 2, 10, 60, 60]), sup=int(rng.random() < 0.3))
    case = ["cfg " + " ".join(f"{k}={v}" for k, v in cfg.items())]
    sh = Shadow(cfg)
    n = maxlen or (rng.randint(6, 30) if tier == "quick" else rng.randint(10, 80))
    if rng.random() < 0.15:
        # publishes before the first connect
        for _ in range(rng.randint(1, 3)):
            case.append(_publish(rng, sh))
    case.append("connect ok" if rng.random() < 0.93 else "connect refuse")
    _after_connect(sh, case[-1].endswith("ok"))
    if sh.sock and cfg["ext"] and rng.random() < 0.9:
        case.append("loop_write")
    if sh.sock and rng.random() < 0.9:
        case.append(_connack(rng, sh))
    for _ in range(n):
        case.append(_next_op(rng, sh))
        # an external event loop services write registrations
        if cfg["ext"] and sh.sock and rng.random() < 0.8 and not case[-1].startswith(("send", "tick", "cfg")):
            case.append("loop_write")
    if proto == 5:
        # MQTT 5: acknowledgements in the three-byte form with a reason code - also non-zero success codes (0x10 No matching
        # subscribers) and failure codes; whatever the code, the handshake goes on as the protocol state machine says
        for j, ln in enumerate(case):
            tk = ln.split()
            if len(tk) == 3 and tk[0] == "rx" and tk[1] in ("puback", "pubrec", "pubrel", "pubcomp") and rng.random() < 0.3:
                rcs = [0, 16, 16, 16, 128, 135, 151] if tk[1] in ("puback", "pubrec") else [0, 146]
                case[j] = ln + f" rc={rng.choice(rcs)}"
    return case


def _reco(rng, ok):
    # the application re-establishes the connection with reconnect() - or, now and then, by calling connect() again
    return ("connect " if rng.random() < 0.2 else "reconnect ") + ("ok" if ok else "refuse")


def _after_connect(sh, ok):
    sh.hosted = True
    sh.sock = ok
    sh.connected = False
    if ok:
        for m, (q, ph) in list(sh.out.items()):
            if sh.cfg["proto"] != 5 and sh.cfg["clean"] == 1:
                sh.out[m] = (q, "sent")
        if (sh.cfg["proto"] != 5 and sh.cfg["clean"] == 1):
            sh.inq2.clear()


def _connack(rng, sh):
    r = rng.random()
    if r < 0.85:
        sh.connected = True
        return f"rx connack {int(rng.random() < 0.5)} 0"
    if sh.cfg["proto"] == 5:
        rc = rng.choice([128, 135, 1, 3, 153, 134])
    else:
        rc = rng.choice([1, 2, 3, 4, 5, 7])
    sh.sock = False
    if sh.cfg["proto"] == 4 and rc == 1 and sh.cfg["rof"]:
        sh.sock = True
        return f"rx connack 0 {rc} " + ("ok" if rng.random() < 0.8 else "refuse")
    return f"rx connack 0 {rc}"


def _publish(rng, sh, qos=None):
    q = qos if qos is not None else rng.choice([0, 1, 1, 2, 2])
    if qos is None and rng.random() < 0.04:
        # an argument publish() must refuse (wildcard in the topic, QoS 3): ValueError and no other effect (C19)
        bq, bt = rng.choice([(q, b"a/+"), (q, b"#"), (3, b"t"), (q, b"t/#/x")])
        return f"publish {bq} {hx(bt)} {hx(b'p')} 0"
    sh.mid = sh.mid % 65535 + 1
    if q > 0 and not (sh.cfg["M"] > 0 and len(sh.out) >= sh.cfg["M"]):
        sh.out[sh.mid] = (q, "sent")
    t = rng.choice(TOPICS)
    p = bytes(rng.randrange(256) for _ in range(rng.choice([0, 1, 3, 3, 10, 40])))
    return f"publish {q} {hx(t)} {hx(p)} {int(rng.random() < 0.2)}"


def _next_op(rng, sh):
    if sh.pending:
        return sh.pending.pop(0)
    r = rng.random()
    if sh.sock and sh.cfg["ka"] > 0 and rng.random() < 0.06:
        # keep-alive pattern: idle for exactly K (PINGREQ due), then K again (timeout due) with loop_misc in between
        k = sh.cfg["ka"] * 1000
        d = rng.choice([0, 0, 500, k // 2])
        # (sometimes the transport fails or stalls exactly when the PINGREQ is written)
        pre = [rng.choice(["send e", "send e", "send b", "send a1"])] if rng.random() < 0.25 else []
        if k >= 2000 and rng.random() < 0.25:
            # an unanswered PINGREQ while both activity timers are kept fresh (inbound traffic; a write of which the transport
            # takes nothing, which also refreshes the outgoing timer): only loop_misc()'s own test of the PINGREQ's age can
            # notice the dead peer
            sh.pending = ["loop_misc", f"tick {k}", "loop_misc", f"tick {k // 2}", f"rx publish 0 0 0 0 {hx(b't')} {hx(b'i')}", "send a0",
                          f"publish 0 {hx(b't')} {hx(b'o')} 0", f"tick {k // 2}", "loop_misc", "loop_misc"]
            return f"tick {d}"
        sh.pending = pre + ["loop_misc", f"tick {k - d if rng.random() < 0.3 else k}", "loop_misc"] + (["rx pingresp"] if rng.random() < 0.4 else []) + \
                     [f"tick {k}", "loop_misc", "loop_misc"]
        if rng.random() < 0.5:
            # ... and a fresh connection right after (a PINGREQ may have been outstanding on the old one)
            # (the servicing loop may run before the CONNACK is there: nothing of the old connection may count against
            # the new one)
            early = ([f"tick {rng.choice([0, 125, 500])}", "loop_misc"] if rng.random() < 0.5 else [])   # (125 ms: exact in binary floating point)
            sh.pending += (["rx eof"] if rng.random() < 0.5 else []) + ["reconnect ok"] + early + ["rx connack 0 0", "loop_misc",
                                                                       f"tick {rng.choice([500, k // 2, k])}", "loop_misc"]
            _after_connect(sh, True)
            sh.connected = True
        return f"tick {k + d}"
    if not sh.sock:
        if r < 0.45:
            ok = rng.random() < 0.85
            _after_connect(sh, ok)
            return _reco(rng, ok) if sh.hosted else "connect ok"
        if r < 0.6:
            return _publish(rng, sh)
        if r < 0.65:
            return "disconnect"
        if r < 0.7:
            return "loop_misc"
        if r < 0.75:
            return "rx none"
        if r < 0.8:
            return f"subscribe {hx(rng.choice(TOPICS))} {rng.choice([0, 1, 2])}"
        if r < 0.85:
            return f"tick {rng.choice([500, 1000, 5000])}"
        ok = rng.random() < 0.9
        _after_connect(sh, ok)
        return _reco(rng, ok)
    if not sh.connected:
        if r < 0.04:
            return "disconnect"         # disconnect() before the CONNACK is processed
        if r < 0.5:
            return _connack(rng, sh)
        if r < 0.65:
            return _publish(rng, sh)
        if r < 0.75:
            sh.sock = False
            return rng.choice(["rx eof", "rx err"])
        if r < 0.85:
            ok = rng.random() < 0.85
            _after_connect(sh, ok)
            return _reco(rng, ok)
        if r < 0.9:
            return f"tick {rng.choice([1000, 10000, 60000])}"
        return "loop_misc"
    # connected
    if sh.out and rng.random() < 0.02:
        # the id generator comes round to a packet id that is still in use (65535 allocations later): the next QoS 1/2
        # publish must be refused; afterwards the run carries on in a block of ids nothing has used yet
        q = rng.choice([1, 2])
        t_ = rng.choice(TOPICS)
        sh.pending = [f"publish {q} {hx(t_)} {hx(bytes([rng.randrange(256)]))} 0", "setmid fresh 0"]
        return f"setmid live {rng.randrange(8)}"
    if rng.random() < 0.02:
        # the wrap-around with a message outstanding at the very end of the id space: a QoS 1/2 message gets id 65535 and
        # stays unacknowledged; one lap later a subscribe / unsubscribe / publish comes round to it (every id handed out is
        # in 1..65535, 65535 is followed by 1, a publish landing on the live id is refused)
        q = rng.choice([1, 2])
        # (no QoS 0 publish here: it would legitimately reuse the id of the live message, which the id-keyed monitors
        # cannot tell from an early completion of that message)
        nxt = rng.choice([f"subscribe {hx(b'a/#')} 1", f"unsubscribe {hx(b't')}", f"publish {q} {hx(b't')} {hx(b'w')} 0"])
        k = rng.choice([0, 0, 1])
        sh.pending = [f"publish {q} {hx(b't')} {hx(b'e')} 0"] * (k + 1) + [f"setmid edge {rng.choice([0, 0, 1])}", nxt, nxt, "setmid fresh 0"]
        return f"setmid edge {k}"
    if sh.out and rng.random() < 0.03:
        # a transport failure / stall exactly when the client answers an acknowledgement (PUBREL after PUBREC ...),
        # then the connection is re-established
        q2 = [m for m, (q, ph) in sh.out.items() if q == 2 and ph == "sent"]
        m = rng.choice(q2) if q2 and rng.random() < 0.8 else rng.choice(list(sh.out))
        q, ph = sh.out[m]
        how = rng.choice(["e", "e", "b", "a1", "a0"])
        if q == 2 and ph == "sent":
            sh.out[m] = (q, "rec")
            follow = [f"rx pubrec {m}"]
        elif q == 2:
            follow = [f"rx pubrec {m}"]
        else:
            del sh.out[m]
            follow = [f"rx puback {m}"]
        if how == "e":
            sh.sock = False
            sh.connected = False
            follow += ["reconnect ok", f"rx connack {int(rng.random() < 0.5)} 0"]
            _after_connect(sh, True)
            sh.connected = True
        sh.pending = follow
        return "send " + how
    if r < 0.012:
        return f"rx connack {rng.choice([0, 1])} {rng.choice([0, 0, 2, 5])}"      # unexpected second CONNACK
    if r < 0.22:
        return _publish(rng, sh)
    if r < 0.45 and sh.out:
        m = rng.choice(list(sh.out))
        q, ph = sh.out[m]
        if rng.random() < 0.08:
            m = rng.choice([m + 1, 999, 1])   # ack for another / unknown id
            return rng.choice([f"rx puback {m}", f"rx pubrec {m}", f"rx pubcomp {m}"])
        if q == 1:
            del sh.out[m]
            return f"rx puback {m}"
        if ph == "sent":
            if rng.random() < 0.85:
                sh.out[m] = (q, "rec")
            return f"rx pubrec {m}"
        if rng.random() < 0.15:
            return f"rx pubrec {m}"   # duplicate PUBREC
        del sh.out[m]
        return f"rx pubcomp {m}"
    if r < 0.57:
        q = rng.choice([0, 1, 2, 2])
        mid = rng.choice([1, 2, 3, 7, 65535])
        if q == 2:
            sh.inq2.add(mid)
        t = rng.choice(TOPICS + [b""]) if rng.random() < 0.05 else rng.choice(TOPICS)
        p = bytes(rng.randrange(256) for _ in range(rng.choice([0, 2, 5])))
        return f"rx publish {q} {mid} {int(rng.random() < 0.2)} {int(rng.random() < 0.2)} {hx(t)} {hx(p)}"
    if r < 0.65 and (sh.inq2 or rng.random() < 0.3):
        mid = rng.choice(sorted(sh.inq2)) if sh.inq2 and rng.random() < 0.85 else rng.choice([1, 2, 3, 9])
        if rng.random() < 0.8:
            sh.inq2.discard(mid)
        return f"rx pubrel {mid}"
    if r < 0.72:
        ok = rng.random() < 0.88
        _after_connect(sh, ok)
        return _reco(rng, ok)
    if r < 0.76:
        sh.sock = False
        sh.connected = False
        return rng.choice(["rx eof", "rx err"])
    if r < 0.80:
        return f"tick {rng.choice([500, 1000, 5000, 10000, 30000, 60000])}"
    if r < 0.84:
        return "loop_misc"
    if r < 0.86:
        return "loop_write"
    if r < 0.885:
        sh.mid = sh.mid % 65535 + 1
        return f"subscribe {hx(rng.choice(TOPICS + [b'a/#', b'+/b', b'a+', b'#/x']))} {rng.choice([0, 1, 2, 0, 1, 2, 3])}"
    if r < 0.90:
        sh.mid = sh.mid % 65535 + 1
        return f"unsubscribe {hx(rng.choice(TOPICS))}"
    if r < 0.915:
        return rng.choice([f"rx suback {sh.mid} {rng.choice([0, 1, 2])}", f"rx unsuback {sh.mid}", "rx pingresp", "rx pingreq"])
    if r < 0.93:
        sh.sock = False
        sh.connected = False
        if rng.random() < 0.3:
            # the client's DISCONNECT cannot leave yet (blocked socket) and the peer ends the connection first
            sh.pending = ["disconnect", ("rx disconnect " + rng.choice(["-", "0", "139", "142"])) if sh.cfg["proto"] == 5 and rng.random() < 0.7
                          else rng.choice(["rx eof", "rx err"])] + (["loop_misc"] if rng.random() < 0.5 else []) + \
                         ([_reco(rng, True), "rx connack 0 0"] if rng.random() < 0.4 else [])
            if len(sh.pending) > 3:
                _after_connect(sh, True)
                sh.connected = True
            return "send b"
        return "disconnect"
    if r < 0.945:
        if sh.cfg["proto"] == 5:
            sh.sock = False
            sh.connected = False
            return "rx disconnect " + rng.choice(["-", "0", "139", "142", "129"])
        return "rx none"
    if r < 0.96:
        sh.sock = False
        sh.connected = False
        return rng.choice(["rx badcmd", "rx malformed"])
    if r < 0.975:
        ds = []
        for _ in range(rng.randint(1, 4)):
            x = rng.random()
            # (a0: the transport took nothing without raising - what the WebSocket wrapper reports while an earlier
            # frame is still being flushed)
            ds.append("b" if x < 0.25 else "e" if x < 0.32 else f"a{rng.choice([0, 1, 1, 2, 3, 5, 8, 1000])}")
        return "send " + ",".join(ds)
    if r < 0.985 and sh.cfg["manual"]:
        return f"ack {rng.choice([1, 2, 3, 7])} {rng.choice([1, 2])}"
    if r < 0.99:
        return f"raise_on_message {rng.choice([1, 2])}"
    return "rx none"


class SessionStream:
    name = "session"
    props = ["C01", "C02", "C03", "C10", "C12", "C13", "C14", "C16", "C19"]
    keep_prefix = 1
    from streams.session_monitors import MONITORS as monitors

    def gen(self, rng, tier):
        if rng.random() < 0.06:
            return gen_backlog(rng)
        return gen_case(rng, tier)

    def real(self, case):
        return run_real(case)

    def features(self, case, obs):
        f = set()
        for line, o in zip(case, obs):
            t = line.split()
            if t[0] == "rx":
                f.add("rx-" + t[1])
            else:
                f.add(t[0])
            ev = o.split(" | ")[0]
            for e in ev.split(";"):
                if e.startswith("on_"):
                    f.add(e.split(":")[0])
                if e.startswith("exc:") or e.startswith("deadlock"):
                    f.add(e)
            if ".rprel." in o:
                f.add("state-resend-pubrel")
            if ".que." in o:
                f.add("state-queued")
        return f

    def nontrivial(self, case, obs):
        fs = self.features(case, obs)
        return "on_publish" in fs or "on_message" in fs


class ReentryStream(SessionStream):
    """the same conversations, but the application publishes QoS 1/2 messages from inside on_publish: no Lean model
    (callbacks that call back into the client are outside the session model); the independent monitors judge the real
    client's behaviour (C12 window / FIFO release, C13 order, C01 exactly-once)"""
    name = "reentry"
    props = ["C01", "C08", "C12", "C13", "C18"]
    has_model = False

    def gen(self, rng, tier):
        if rng.random() < 0.25:
            return self.gen_window(rng)
        if rng.random() < 0.2:
            return gen_backlog(rng, nested=rng.random() < 0.7)
        if rng.random() < 0.12:
            return gen_kafail(rng)
        case = gen_case(rng, tier)
        cfg = case[0] + f" cbpub={rng.choice([1, 1, 2])} cbn={rng.choice([1, 2, 3])} cbw={rng.choice([0, 0, 1, 2, 3, 4])} cbop={rng.choice([0, 0, 0, 1, 2])}"
        # small windows make the release order visible
        if rng.random() < 0.7:
            cfg = " ".join((f"N={rng.choice([1, 1, 2])}" if w.startswith("N=") else "ext=0" if w.startswith("ext=") else w) for w in cfg.split())
        # (no id fast-forward here: the generator does not know the ids of the nested publishes)
        return [cfg] + [l for l in case[1:] if not l.startswith("setmid")]


    @staticmethod
    def gen_window(rng):
        """scripted: a full in-flight window with messages waiting behind it, acknowledgements arriving one by one, and the
        application publishing again from inside on_publish - the nested message must queue up behind the waiting ones"""
        proto = rng.choice([4, 4, 5, 3])
        n = rng.choice([1, 1, 2, 3])
        cfg = dict(proto=proto, clean=rng.choice([0, 1]), N=n, M=rng.choice([0, 0, 12]), manual=0, rof=1, ext=0,
                   ka=rng.choice([0, 60]), sup=int(rng.random() < 0.3), cbpub=rng.choice([1, 1, 2]), cbn=rng.choice([1, 2, 3]),
                   cbw=0, cbop=0)
        case = ["cfg " + " ".join(f"{k}={v}" for k, v in cfg.items()), "connect ok", "rx connack 0 0"]
        total = n + rng.randint(1, 3)
        qos = [rng.choice([1, 1, 2]) for _ in range(total)]
        for q in qos:
            case.append(f"publish {q} {hx(b't/' + bytes([97 + rng.randrange(4)]))} {hx(bytes([rng.randrange(256)]))} 0")
        # ids 1..total belong to the scripted messages (nested ones get higher ids); acknowledge in id order
        for m, q in enumerate(qos, start=1):
            if rng.random() < 0.1:
                case.append("rx none")
            if q == 1:
                case.append(f"rx puback {m}")
            else:
                case += [f"rx pubrec {m}", f"rx pubcomp {m}"]
        for m in range(total + 1, total + 1 + cfg["cbn"]):
            case.append(rng.choice([f"rx puback {m}", f"rx pubrec {m}", f"rx pubcomp {m}", "rx none"]))
        return case


STREAMS = [SessionStream(), ReentryStream()]
