"""T2 stream `loopforever` (C09): the REAL loop_forever() runs unmodified in virtual time (fake select / sleep /
sockets) against a script of per-attempt outcomes; observation = virtual timestamps of connection attempts,
the callbacks, and the return value. Model: Paho.Model.LoopForever. Monitor: back-off formula, finality of
disconnect(), reconnect_on_failure=False."""
from __future__ import annotations

import wire
from harness import PROTO, V1
from world import World, name_locks, pc, raw


class StopRun(BaseException):
    pass


def parse_disc(w):
    # letters: disconnect() in on_connect_fail / on_connect / on_disconnect / during the back-off wait;
    # a trailing s<code>: the server ends an accepted MQTT 5 connection with DISCONNECT(code) instead of closing the stream
    srv = int(w.split("s")[1]) if "s" in w else None
    return {"f": "f" in w, "c": "c" in w, "d": "d" in w, "w": "w" in w, "s": srv}


def parse_script(s):
    out = []
    for w in s.split(","):
        t = w.split(":")
        if t[0] == "refuse":
            out.append(("refuse", parse_disc(t[1])))
        elif t[0] == "eof":
            out.append(("eof", int(t[1]), parse_disc(t[2])))
        elif t[0] == "nack":
            out.append(("nack", int(t[1]), int(t[2]), parse_disc(t[3])))
        elif t[0] == "acc":
            out.append(("acc", int(t[1]), int(t[2]), parse_disc(t[3])))
        elif t[0] == "down":
            out.append(("down", int(t[1])))
        elif t[0] == "predisc":
            out.append(("predisc",))
    return out


def run_real(line):
    import warnings
    warnings.simplefilter("ignore", DeprecationWarning)
    t = line.split()
    a = {}
    for w in t[1:]:
        k, _, v = w.partition("=")
        a[k] = v
    proto = int(a.get("proto", 4))
    script = parse_script(a["script"])
    w = World()
    w.install()
    t0 = w.clock.ms
    ev = []
    c = pc.Client(V1, client_id="cid", protocol=PROTO[proto], reconnect_on_failure=a.get("rof") == "1")
    name_locks(c)
    c.reconnect_delay_set(int(a.get("min", 1)), int(a.get("max", 120)))
    pend = a.get("pend") == "1"
    rng_q = 1 + (len(a["script"]) % 2)
    if pend:
        # accepted without a connection: (re)transmitted at every accepted CONNACK (two of them: when the write of the first
        # fails the retransmission pass is left early, with the second still to do)
        c.publish("p/t", b"pending", 1)
        c.publish("p/u", b"pending too", rng_q)
    idx = {"i": -1}            # index of the current script item
    sched = []                 # (due_ms, kind, payload) for the current socket

    def cur_item():
        return script[idx["i"]] if 0 <= idx["i"] < len(script) else None

    def rel():
        return w.clock.ms - t0

    def on_open(conn):
        pass

    # socket factory: consumes one script item per attempt
    def new_socket():
        idx["i"] += 1
        if idx["i"] >= len(script):
            ev.append("script-end")
            raise StopRun()
        it = script[idx["i"]]
        if it[0] == "down" and not (int(c._protocol) == 4 and a.get("rof") == "1"):
            it = ("nack", 1, it[1], parse_disc("-"))
            script[idx["i"]] = it
        if it[0] == "refuse":
            ev.append(f"attempt@{rel()}:refuse")
            w.attempt_script.append("refuse")
        else:
            ev.append(f"attempt@{rel()}:ok")
            w.attempt_script.append("ok")
        s = orig_new_socket()
        sched.clear()
        now = w.clock.ms
        p = int(c._protocol)
        if it[0] == "eof":
            sched.append((now + it[1], "eof", None))
        elif it[0] == "nack":
            sched.append((now + it[2], "data", wire.enc_connack(p, rc=it[1])))
        elif it[0] == "acc":
            sched.append((now + it[1], "data", wire.enc_connack(p, rc=0)))
            if it[3]["s"] is not None and p == 5 and it[2] == 0:
                # right behind the CONNACK: both packets arrive together
                sched[-1] = (now + it[1], "data", wire.enc_connack(p, rc=0) + wire.enc_disconnect(rc=it[3]["s"]))
            elif it[3]["s"] is not None and p == 5:
                sched.append((now + it[1] + it[2], "data", wire.enc_disconnect(rc=it[3]["s"])))
            elif pend and it[2] == 0 and not any(it[3][k] for k in "fcdw"):
                # "accepted, then lost at once", realised differently: the application has a QoS 1 message pending, and the write
                # that retransmits it when the CONNACK is handled fails - the connection was accepted all the same
                sched[-1] = (now + it[1], "dataerr", wire.enc_connack(p, rc=0))
            else:
                sched.append((now + it[1] + it[2], "eof", None))
        elif it[0] == "down":
            sched.append((now + it[1], "data", wire.enc_connack(p, rc=1)))
        return s
    orig_new_socket = w._new_socket
    w._new_socket = new_socket
    import paho.mqtt.client as _pc
    _pc.socket.create_connection = lambda *aa, **kw: new_socket()

    def select_hook(timeout):
        s = raw(c._sock)
        if s is None or not sched:
            return False
        due, kind, payload = sched[0]
        horizon = w.clock.ms + int(round((timeout or 0) * 1000))
        if due <= horizon:
            if due > w.clock.ms:
                w.clock.advance_ms(due - w.clock.ms)
            sched.pop(0)
            if kind == "eof":
                s.feed_eof()
            else:
                if kind == "dataerr":
                    s.outscript.append(("error",))
                s.feed(payload)
            return True
        return False
    w.select_hook = select_hook

    def disc_flag(which):
        it = cur_item()
        if it is None or it[0] in ("down", "predisc"):
            return False
        return it[-1][which]

    def on_connect(cl, ud, flags, rc, props=None):
        ev.append(f"on_connect:{int(rc) if isinstance(rc, int) else rc.value}@{rel()}")
        if disc_flag("c"):
            ev.append(f"disconnect()@{rel()}")
            cl.disconnect()

    def on_disconnect(cl, ud, rc, props=None):
        ev.append(f"on_disconnect:{int(rc) if isinstance(rc, int) else (0 if rc is None else rc.value)}@{rel()}")
        if disc_flag("d"):
            ev.append(f"disconnect()@{rel()}")
            cl.disconnect()

    def on_pre_connect(cl, ud):
        # the application gives up inside on_pre_connect of the attempt the next script item stands for
        nxt = script[idx["i"] + 1] if idx["i"] + 1 < len(script) else None
        if nxt is not None and nxt[0] == "predisc":
            idx["i"] += 1
            ev.append(f"disconnect()@{rel()}")
            cl.disconnect()

    def on_connect_fail(cl, ud):
        ev.append(f"on_connect_fail@{rel()}")
        if disc_flag("f"):
            ev.append(f"disconnect()@{rel()}")
            cl.disconnect()
    def sleep_hook(secs):
        # disconnect() from another thread while loop_forever() sleeps in the back-off wait after this attempt
        if disc_flag("w") and not slept.get(idx["i"]):
            slept[idx["i"]] = True
            ev.append(f"disconnect()@{rel()}")
            c.disconnect()
    slept = {}
    w.sleep_hook = sleep_hook
    c.on_connect = on_connect
    c.on_disconnect = on_disconnect
    c.on_connect_fail = on_connect_fail
    c.on_pre_connect = on_pre_connect
    c.connect_async("broker", 1883, 0)
    w.max_select = 20000
    try:
        rc = c.loop_forever(timeout=1.0, retry_first_connection=a.get("retry") == "1")
        ev.append(f"ret:{int(rc)}")
    except StopRun:
        pass
    except KeyboardInterrupt:
        ev.append("select-budget")
    except OSError as e:
        ev.append("exc:" + type(e).__name__)
    return ";".join(ev)


def rand_disc(rng, p=0.12):
    return "".join(ch for ch in "fcdw" if rng.random() < (p if ch != "w" else p / 2)) or "-"


class LFStream:
    name = "loopforever"
    props = ["C09"]

    def gen(self, rng, tier):
        case = []
        for _ in range(rng.randint(1, 3)):
            proto = rng.choice([4, 4, 5, 3])
            mn = rng.choice([1, 1, 2, 3])
            mx = rng.choice([mn, mn * 2, mn * 4, mn * 5, 120])
            n = rng.randint(1, 8 if tier == "quick" else 14)
            items = []
            # pend: the application has a QoS 1 message pending from the start (conversations without disconnect() calls only:
            # what this variant adds is an accepted connection that is lost by a failing retransmission write)
            pend = int(rng.random() < 0.3)
            for k in range(n):
                r = rng.random()
                if pend:
                    if r < 0.3:
                        items.append("refuse:-")
                    elif r < 0.45:
                        items.append(f"eof:{rng.choice([0, 1000, 2000])}:-")
                    elif r < 0.55:
                        items.append(f"nack:{rng.choice([2, 3, 4, 5] if proto != 5 else [128, 134, 135])}:{rng.choice([0, 1000])}:-")
                    else:
                        items.append(f"acc:{rng.choice([0, 1000, 2000])}:{rng.choice([0, 0, 0, 1000, 5000])}:-")
                    continue
                if r < 0.04:
                    items.append("predisc")
                elif r < 0.3:
                    items.append(f"refuse:{rand_disc(rng, 0.08)}")
                elif r < 0.5:
                    items.append(f"eof:{rng.choice([0, 1000, 2000, 500, 3000])}:{rand_disc(rng, 0.08)}")
                elif r < 0.65:
                    rc = rng.choice([2, 3, 4, 5] if proto != 5 else [128, 134, 135])
                    items.append(f"nack:{rc}:{rng.choice([0, 1000, 2000])}:{rand_disc(rng, 0.08)}")
                elif r < 0.92:
                    d = rand_disc(rng, 0.12)
                    life = rng.choice([0, 1000, 5000, 30000])
                    if proto == 5 and rng.random() < 0.4 or rng.random() < 0.05:
                        # the server ends the connection with a DISCONNECT packet; often right behind the CONNACK, with
                        # the application disconnecting inside on_connect (the client's own DISCONNECT is still queued)
                        if rng.random() < 0.5:
                            life = 0
                            if rng.random() < 0.6 and "c" not in d:
                                d = ("c" + d).replace("-", "")
                        d = d.replace("-", "") + "s" + str(rng.choice([0, 4, 128, 139, 141, 142, 152]))
                    items.append(f"acc:{rng.choice([0, 1000, 2000])}:{life}:{d}")
                else:
                    items.append(f"down:{rng.choice([0, 1000])}")
            case.append(f"lf proto={proto} min={mn} max={mx} rof={1 if pend else int(rng.random() < 0.85)} retry={int(rng.random() < 0.85)} pend={pend} script={','.join(items)}")
        return case

    def real(self, case):
        return [run_real(line) for line in case]

    # ---- independent oracle
    def monitor_C09(self, case, obs):
        hits = []
        for i, (line, o) in enumerate(zip(case, obs)):
            a = {}
            for w in line.split()[1:]:
                k, _, v = w.partition("=")
                a[k] = v
            mn, mx = int(a["min"]), int(a["max"])
            rof = a["rof"] == "1"
            evs = o.split(";")
            # reconstruct: times of attempts, end times of connections, accepted CONNACKs, disconnect() calls
            script = parse_script(a["script"])
            k = 0                 # consecutive waits since the last accepted CONNACK (or start)
            last_end = None       # time the previous attempt/connection ended
            disc_called = False
            ai = -1
            first_loss_seen = False
            is_downgrade_retry = False
            cur_proto = int(a["proto"])
            for e in evs:
                if e.startswith("attempt@"):
                    tm = int(e.split("@")[1].split(":")[0])
                    ai += 1
                    if disc_called:
                        hits.append((i, "attempt-after-disconnect", f"connection attempt at {tm} ms after the application called disconnect(): {o[:200]}"))
                    if not rof and first_loss_seen:
                        hits.append((i, "attempt-without-rof", f"reconnect_on_failure is False but a new attempt was made at {tm} ms: {o[:200]}"))
                    if last_end is not None and not is_downgrade_retry:
                        wait = tm - last_end
                        exp = min(mn * (2 ** k), mx) * 1000
                        if wait != exp:
                            hits.append((i, "backoff", f"wait before attempt #{ai + 1} is {wait} ms, expected min({mn}*2^{k}, {mx}) s = {exp} ms: {o[:200]}"))
                        if wait < mn * 1000:
                            hits.append((i, "min-delay", f"retried after {wait} ms < min_delay {mn} s"))
                        k += 1
                    is_downgrade_retry = False
                    it = script[ai] if ai < len(script) else None
                    if e.endswith(":refuse"):
                        last_end = tm
                        first_loss_seen = True
                        if it and it[0] == "refuse" and it[1]["f"]:
                            disc_called = True
                    elif it and it[0] == "down" and cur_proto == 4 and rof:
                        # the in-handler retry: not a loss, no wait, delay register untouched
                        is_downgrade_retry = True
                        last_end = None
                        cur_proto = 3
                elif e.startswith("on_connect:"):
                    rc = int(e.split(":")[1].split("@")[0])
                    tm = int(e.split("@")[1])
                    if rc == 0:
                        k = 0
                    it = script[ai] if 0 <= ai < len(script) else None
                    if it and it[0] != "down" and it[-1]["c"]:
                        disc_called = True
                elif e.startswith("on_disconnect:"):
                    tm = int(e.split("@")[1])
                    last_end = tm
                    first_loss_seen = True
                    it = script[ai] if 0 <= ai < len(script) else None
                    if it and it[0] != "down" and it[-1]["d"]:
                        disc_called = True
                elif e.startswith("disconnect()@"):
                    disc_called = True
                elif e == "script-end" and disc_called:
                    hits.append((i, "no-return-after-disconnect", f"loop_forever() kept going after disconnect(): {o[:200]}"))
            if disc_called and not any(e.startswith(("ret:", "exc:")) for e in evs) and "script-end" not in evs:
                hits.append((i, "no-return", f"disconnect() was called but loop_forever() did not return: {o[:200]}"))
        return hits

    monitors = {"C09": monitor_C09}

    def features(self, case, obs):
        f = set()
        for o in obs:
            for e in o.split(";"):
                f.add(e.split("@")[0].split(":")[0] + (":" + e.split(":")[1].split("@")[0] if e.startswith(("ret", "on_connect:", "on_disconnect:")) else ""))
        return f

    def nontrivial(self, case, obs):
        return any(o.count("attempt@") >= 3 for o in obs)


STREAMS = [LFStream()]
