"""T2 stream `decode` (C05, decoding part): every inbound packet type in all its encodings, whole, to a real
client in a fixed scenario; observation = the exact arguments the user callback receives (API v1 and v2),
or the error code / exception type leaving loop_read(). Model: Paho.Model.Reader.parseBody + cbRender.
Monitor: the values handed to the callbacks equal the encoded ones (independent of the model)."""
from __future__ import annotations

import wire
from common import hx, unhx
from harness import PROTO, V1, V2
from streams.props import show_val, view
from world import World, name_locks, pc

UNI = [b"a", b"t/\xc3\xa9", b"\xf0\x9f\x98\x80", b"", b"$SYS/x"]



def rv(reason):
    """a reason code handed to a callback, as its value - flagged when the object is not self-consistent: its name (what
    str(), getName() and == "<name>" use) must denote the same code for its packet type, and is_failure must be value >= 128"""
    from paho.mqtt.reasoncodes import ReasonCode
    v = reason.value
    try:
        back = ReasonCode(reason.packetType, aName=str(reason)).value
    except Exception as e:  # noqa: BLE001
        back = f"{type(e).__name__}"
    flag = "" if back == v else f"!name={str(reason).replace(' ', '_')}"
    if bool(reason.is_failure) != (v >= 128):
        flag += "!is_failure"
    return f"{v}{flag}"


def excname(e):
    n = type(e).__name__
    return "struct.error" if n == "error" else n


def pv(p):
    return "-" if p is None else "[" + view(p) + "]"


def rand_props_list(rng, pt):
    allowed = [i for i, (_, pk) in wire.PROPS.items() if pt in pk]
    items = []
    for _ in range(rng.randint(0, 3)):
        if not allowed:
            break
        pid = rng.choice(allowed)
        if pid not in wire.REPEATABLE and any(x[0] == pid for x in items):
            continue
        ty = wire.PROPS[pid][0]
        if ty == wire.BYTE:
            v = rng.choice([0, 1]) if pid in (1, 23, 25, 36, 37, 40, 41, 42) else rng.choice([0, 7])
        elif ty == wire.TWO:
            v = rng.choice([1, 10, 65535])
        elif ty == wire.FOUR:
            v = rng.choice([1, 4294967295, 77])
        elif ty == wire.VARINT:
            v = rng.choice([1, 127, 128, 16384, 268435455])
        elif ty == wire.BIN:
            v = bytes(rng.randrange(256) for _ in range(rng.choice([0, 1, 9])))
        elif ty == wire.STR:
            v = rng.choice([b"s", b"\xc3\xa9", b"", b"reason"])
        else:
            v = (rng.choice([b"k", b""]), rng.choice([b"v", b"\xf0\x9f\x98\x80"]))
        items.append((pid, v))
    return items


class DecodeStream:
    name = "decode"
    props = ["C05"]

    def gen(self, rng, tier):
        case = []
        for _ in range(rng.randint(3, 8)):
            proto = rng.choice([3, 4, 4, 5, 5, 5])
            api = rng.choice([1, 2])
            case.append(f"handle {proto} {api} {hx(self.rand_packet(rng, proto))}")
        return case

    def rand_packet(self, rng, proto):
        r = rng.random()
        v5 = proto == 5
        P = (lambda pt: rand_props_list(rng, pt)) if v5 else (lambda pt: None)
        if r < 0.12:
            rc = rng.choice([0, 0, 128, 135, 153, 1, 3, 134] if v5 else [0, 1, 2, 3, 4, 5, 6])
            pk = wire.enc_connack(proto, sp=rng.randrange(2), rc=rc, props=P(wire.CONNACK))
        elif r < 0.35:
            q = rng.choice([0, 1, 2, 2, 3]) if rng.random() < 0.1 else rng.choice([0, 1, 2])
            body_topic = rng.choice(UNI)
            if q == 3:
                pk = bytearray(wire.enc_publish(proto, body_topic, b"x", qos=1, mid=5, props=P(wire.PUBLISH)))
                pk[0] |= 0x06
                pk = bytes(pk)
            else:
                pk = wire.enc_publish(proto, body_topic, bytes(rng.randrange(256) for _ in range(rng.choice([0, 1, 20]))), qos=q,
                                      retain=rng.randrange(2), dup=rng.randrange(2) if q else 0, mid=rng.choice([1, 7, 65535]),
                                      props=P(wire.PUBLISH))
        elif r < 0.6:
            pt = rng.choice([wire.PUBACK, wire.PUBREC, wire.PUBREL, wire.PUBCOMP])
            mid = {wire.PUBACK: 1, wire.PUBCOMP: 2}.get(pt, rng.choice([2, 9])) if rng.random() < 0.8 else rng.choice([1, 2, 9])
            form = rng.random()
            if not v5 or form < 0.3:
                pk = wire.enc_ack(proto, pt, mid)
            elif form < 0.6:
                pk = wire.enc_ack(proto, pt, mid, rc=rng.choice([c for c, pts in wire.REASONS.items() if pt in pts]))
            else:
                pk = wire.enc_ack(proto, pt, mid, rc=rng.choice([c for c, pts in wire.REASONS.items() if pt in pts]), props=rand_props_list(rng, pt))
        elif r < 0.7:
            codes = [rng.choice([0, 1, 2, 128] if v5 or rng.random() < 0.9 else [0, 1, 2, 3]) for _ in range(rng.randint(1, 3))]
            pk = wire.enc_suback(proto, rng.choice([1, 300]), codes, props=P(wire.SUBACK))
        elif r < 0.8:
            codes = [rng.choice([0, 17, 128]) for _ in range(rng.randint(1, 3))]
            pk = wire.enc_unsuback(proto, rng.choice([1, 300]), codes if v5 else (), props=P(wire.UNSUBACK))
        elif r < 0.85:
            pk = rng.choice([wire.enc_pingresp(), b"\xc0\x00"])
        elif r < 0.95:
            form = rng.random()
            rcs = [c for c, pts in wire.REASONS.items() if wire.DISCONNECT in pts]
            if form < 0.3:
                pk = wire.enc_disconnect()
            elif form < 0.6:
                pk = wire.enc_disconnect(rc=rng.choice(rcs))
            else:
                pk = wire.enc_disconnect(rc=rng.choice(rcs), props=rand_props_list(rng, wire.DISCONNECT))
        else:
            pk = rng.choice([b"\xf0\x00", b"\x10\x00", b"\x40\x01\x00", b"\x20\x01\x00", b"\x30\x01\x00", b"\x90\x01\x00", b"\xb0\x03\x00\x01\x00"])
        # malformed stream: mutate a well-formed packet now and then (length kept consistent)
        if rng.random() < 0.12 and len(pk) > 2:
            body = bytearray(pk[2:]) if pk[1] < 128 else None
            if body is not None and body:
                k = rng.random()
                if k < 0.4:
                    body[rng.randrange(len(body))] ^= 1 << rng.randrange(8)
                elif k < 0.7:
                    body = body[:rng.randrange(len(body))]
                else:
                    body += bytes([rng.randrange(256)])
                if len(body) < 128:
                    pk = bytes([pk[0], len(body)]) + bytes(body)
        return pk

    def real(self, case):
        obs = []
        for line in case:
            t = line.split()
            proto, api, data = int(t[1]), int(t[2]), unhx(t[3])
            obs.append(self.handle(proto, api, data))
        return obs

    @staticmethod
    def handle(proto, api, data, history=False):
        import warnings
        warnings.simplefilter("ignore", DeprecationWarning)
        w = World()
        w.install()
        args = dict(client_id="cid", protocol=PROTO[proto])
        c = pc.Client(V2 if api == 2 else V1, **args)
        name_locks(c)
        ev = []
        c.connect("broker", 1883, 60)
        s = w.cur()
        s.feed(wire.enc_connack(proto))
        c.loop_read()
        c.publish("t", b"a", 1)              # mid 1, waiting for PUBACK
        c.publish("t", b"b", 2)              # mid 2
        s.feed(wire.enc_ack(proto, wire.PUBREC, 2))
        c.loop_read()                        # mid 2 now waits for PUBCOMP
        v5 = proto == 5
        if api == 1:
            if v5:
                c.on_connect = lambda cl, ud, flags, reason, props: ev.append(f"on_connect sp={flags['session present']} reason={rv(reason)} props={pv(props)}")
                c.on_disconnect = lambda cl, ud, rc, props=None: (None if isinstance(rc, int) else ev.append(
                    f"on_disconnect reason={'None' if rc is None else rv(rc)} props={pv(props)}"))
                c.on_subscribe = lambda cl, ud, mid, codes, props: ev.append(f"on_subscribe mid={mid} codes={','.join(rv(x) for x in codes)} props={pv(props)}")
                c.on_unsubscribe = lambda cl, ud, mid, props, codes: ev.append(
                    f"on_unsubscribe mid={mid} props={pv(props)} " + (f"codes={','.join(rv(x) for x in codes)}" if isinstance(codes, list) else f"code={rv(codes)}"))
            else:
                c.on_connect = lambda cl, ud, flags, rc: ev.append(f"on_connect sp={flags['session present']} rc={int(rc)}")
                c.on_disconnect = lambda cl, ud, rc: None     # MQTT 3: always client-generated
                c.on_subscribe = lambda cl, ud, mid, granted: ev.append(f"on_subscribe mid={mid} granted={','.join(str(x) for x in granted)}")
                c.on_unsubscribe = lambda cl, ud, mid: ev.append(f"on_unsubscribe mid={mid}")
            c.on_publish = lambda cl, ud, mid: ev.append(f"on_publish mid={mid}")
        else:
            c.on_connect = lambda cl, ud, flags, reason, props: ev.append(f"on_connect sp={int(flags.session_present)} reason={rv(reason)} props={pv(props)}")
            c.on_disconnect = lambda cl, ud, flags, reason, props: (ev.append(
                f"on_disconnect from_server=1 reason={rv(reason)} props={pv(props)}") if flags.is_disconnect_packet_from_server else None)
            c.on_subscribe = lambda cl, ud, mid, codes, props: ev.append(f"on_subscribe mid={mid} codes={','.join(rv(x) for x in codes)} props={pv(props)}")
            c.on_unsubscribe = lambda cl, ud, mid, codes, props: ev.append(f"on_unsubscribe mid={mid} codes={','.join(rv(x) for x in codes)} props={pv(props)}")
            c.on_publish = lambda cl, ud, mid, reason, props: ev.append(f"on_publish mid={mid} reason={rv(reason)} props={pv(props)}")
        c.on_message = lambda cl, ud, m: ev.append(
            f"on_message dup={int(m.dup)} qos={m.qos} retain={int(m.retain)} topic={hx(m._topic)} mid={m.mid} props={pv(m.properties)} payload={hx(bytes(m.payload))}")
        if history:
            # the client has already handled acknowledgements in their long form (reason code and properties) for OTHER messages:
            # what a callback is handed for the packet under test must not depend on them
            c.publish("t", b"c", 1)              # mid 3
            c.publish("t", b"d", 2)              # mid 4
            s.feed(wire.enc_ack(proto, wire.PUBACK, 3, rc=16 if v5 else None, props=[(31, b"earlier puback")] if v5 else None))
            s.feed(wire.enc_ack(proto, wire.PUBREC, 4))
            s.feed(wire.enc_ack(proto, wire.PUBCOMP, 4, rc=146 if v5 else None, props=[(31, b"earlier pubcomp"), (38, (b"k", b"v"))] if v5 else None))
            for _ in range(4):
                c.loop_read()
            ev.clear()
        s.feed(data)
        try:
            rc = c.loop_read()
        except Exception as e:  # noqa: BLE001
            return "exc:" + excname(e)
        if ev:
            # the first callback is the one that carries the decoded packet; what the session layer does next
            # (e.g. on_disconnect after a refused CONNACK) is the session stream's business
            return ev[0]
        if rc:
            # a handler-level error code (the disconnect callback it triggers is the session's business)
            return f"ret:{int(rc)}"
        return "none"

    # ---- independent oracle: decode the packet with wire.py's own broker-packet knowledge
    def monitor_C05(self, case, obs):
        hits = []
        for i, (line, o) in enumerate(zip(case, obs)):
            t = line.split()
            proto, api, data = int(t[1]), int(t[2]), unhx(t[3])
            exp = self.expect(proto, api, data)
            if exp is None:
                continue
            if o != exp:
                hits.append((i, "decode", f"proto={proto} api={api} packet={data[:40].hex()}: callback got <{o}>, encoded values are <{exp}>"))
        return hits

    @staticmethod
    def expect(proto, api, data):
        """expected callback rendering for WELL-FORMED packets, computed from the bytes with the independent codec;
        None when the packet is not a well-formed broker packet (then only fragmentation-independence is required)"""
        try:
            ptype = data[0] >> 4
            flags = data[0] & 15
            rl, pos = wire.vbi_dec(data, 1)
            if pos + rl != len(data):
                return None
            b = data
            v5 = proto == 5

            def props(pt, p):
                if p >= len(b):
                    return None, p
                return wire.props_dec(b, p, pt)

            def render_props(pl, empty_ok=True):
                if pl is None:
                    return "[]" if empty_ok else "-"
                d = {}
                for pid, val in pl:
                    d.setdefault(pid, []).append(val)
                order = [1, 2, 3, 8, 9, 11, 17, 18, 19, 21, 22, 23, 24, 25, 26, 28, 31, 33, 34, 35, 36, 37, 38, 39, 40, 41, 42]
                parts = []
                for pid in order:
                    if pid in d:
                        parts.append(f"{pid}=" + ",".join(show_val(v) if not isinstance(v, tuple) else "p" + hx(v[0]) + ":" + hx(v[1]) for v in d[pid]))
                return "[" + ";".join(parts) + "]"

            def bad_values(pl):
                return pl is not None and any((pid in (33, 35, 39, 11) and val == 0) or (pid in (1, 23, 25) and val not in (0, 1)) for pid, val in pl)
            if ptype == wire.CONNACK:
                if flags or rl < 2 or (b[pos] & 0xFE):
                    return None
                sp, rc = b[pos] & 1, b[pos + 1]
                if v5:
                    if wire.CONNACK not in wire.REASONS.get(rc, ()):
                        return None
                    pl, p2 = wire.props_dec(b, pos + 2, wire.CONNACK)
                    if p2 != len(b) or bad_values(pl):
                        return None
                    if rc == 1:
                        return None
                    if api == 1:
                        return f"on_connect sp={sp} reason={rc} props={render_props(pl)}"
                    return f"on_connect sp={sp} reason={rc} props={render_props(pl)}"
                if rl != 2 or rc > 5:
                    return None
                if proto == 4 and rc == 1:
                    return None      # triggers the protocol downgrade, not a callback
                if api == 1:
                    return f"on_connect sp={sp} rc={rc}"
                conv = {0: 0, 1: 132, 2: 133, 3: 136, 4: 134, 5: 135}[rc]
                return f"on_connect sp={sp} reason={conv} props=[]"
            if ptype == wire.PUBLISH:
                qos = (flags >> 1) & 3
                if qos == 3 or (qos == 0 and flags & 8):
                    return None
                topic, p = wire.rd_bin(b, pos)
                try:
                    wire.check_utf8(topic)
                except wire.Malformed:
                    return None
                if b"+" in topic or b"#" in topic or (not v5 and not topic):
                    return None
                mid = 0
                if qos:
                    mid, p = wire.rd_u16(b, p)
                    if mid == 0:
                        return None
                pl = None
                if v5:
                    pl, p = wire.props_dec(b, p, wire.PUBLISH)
                    if bad_values(pl):
                        return None
                if qos == 2:
                    return "none"
                return (f"on_message dup={(flags >> 3) & 1} qos={qos} retain={flags & 1} topic={hx(topic)} mid={mid} "
                        f"props={render_props(pl, empty_ok=True) if v5 else '-'} payload={hx(b[p:])}")
            if ptype in (wire.PUBACK, wire.PUBREC, wire.PUBREL, wire.PUBCOMP):
                if flags != (2 if ptype == wire.PUBREL else 0):
                    return None
                mid, p = wire.rd_u16(b, pos)
                rc, pl = 0, None
                if v5 and p < len(b):
                    rc = b[p]
                    p += 1
                    if ptype not in wire.REASONS.get(rc, ()):
                        return None
                    if p < len(b):
                        pl, p = wire.props_dec(b, p, ptype)
                if p != len(b) or (not v5 and rl != 2):
                    return None
                if ptype in (wire.PUBACK, wire.PUBCOMP) and mid in (1, 2) and not ((ptype == wire.PUBACK and mid == 1) or (ptype == wire.PUBCOMP and mid == 2)):
                    return None       # an acknowledgement of the wrong kind: not a conforming broker
                if not ((ptype == wire.PUBACK and mid == 1) or (ptype == wire.PUBCOMP and mid == 2)):
                    return "none"
                if api == 1:
                    return f"on_publish mid={mid}"
                return f"on_publish mid={mid} reason={rc} props={render_props(pl)}"
            if ptype == wire.SUBACK:
                if flags:
                    return None
                mid, p = wire.rd_u16(b, pos)
                pl = None
                if v5:
                    pl, p = wire.props_dec(b, p, wire.SUBACK)
                codes = list(b[p:])
                if not codes or any(wire.SUBACK not in wire.REASONS.get(c_, ()) for c_ in codes) or (not v5 and any(c_ not in (0, 1, 2, 128) for c_ in codes)):
                    return None
                if api == 1 and not v5:
                    return f"on_subscribe mid={mid} granted={','.join(map(str, codes))}"
                return f"on_subscribe mid={mid} codes={','.join(map(str, codes))} props={render_props(pl)}"
            if ptype == wire.UNSUBACK:
                if flags:
                    return None
                mid, p = wire.rd_u16(b, pos)
                if not v5:
                    if rl != 2:
                        return None
                    return f"on_unsubscribe mid={mid}" if api == 1 else f"on_unsubscribe mid={mid} codes= props=[]"
                pl, p = wire.props_dec(b, p, wire.UNSUBACK)
                codes = list(b[p:])
                if not codes or any(wire.UNSUBACK not in wire.REASONS.get(c_, ()) for c_ in codes):
                    return None
                cs = ",".join(map(str, codes))
                if api == 1:
                    return f"on_unsubscribe mid={mid} props={render_props(pl)} " + (f"code={codes[0]}" if len(codes) == 1 else f"codes={cs}")
                return f"on_unsubscribe mid={mid} codes={cs} props={render_props(pl)}"
            if ptype == wire.DISCONNECT and v5:
                if flags:
                    return None
                rc, pl, p = None, None, pos
                if p < len(b):
                    rc = b[p]
                    p += 1
                    if wire.DISCONNECT not in wire.REASONS.get(rc, ()):
                        return None
                    if p < len(b):
                        pl, p = wire.props_dec(b, p, wire.DISCONNECT)
                if p != len(b):
                    return None
                if api == 1:
                    return f"on_disconnect reason={'None' if rc is None else rc} props={render_props(pl, empty_ok=False) if pl is not None else '-'}"
                return f"on_disconnect from_server=1 reason={rc or 0} props={render_props(pl)}"
            if ptype == wire.PINGRESP and rl == 0 and not flags:
                return "none"
            return None
        except (wire.Malformed, IndexError, KeyError):
            return None

    monitors = {"C05": monitor_C05}

    def features(self, case, obs):
        f = set()
        for line, o in zip(case, obs):
            f.add(o.split()[0].split(":")[0] + ("" if not o.startswith(("exc", "ret")) else ":" + o.split(":")[1]))
        return f

    def nontrivial(self, case, obs):
        return any(o.startswith("on_") for o in obs)


class DecodeHistStream(DecodeStream):
    """the same packets, handed to a client that has ALREADY handled long-form acknowledgements (reason code and properties) for
    other messages: the values a callback receives must be those of the packet it belongs to. No Lean model (the decoders'
    model is stateless); the independent oracle of the decode stream judges the real client."""
    name = "decodehist"
    props = ["C05"]
    has_model = False

    def gen(self, rng, tier):
        case = []
        for _ in range(rng.randint(3, 8)):
            proto = rng.choice([5, 5, 5, 4])
            api = rng.choice([1, 2, 2])
            case.append(f"handle {proto} {api} {hx(self.rand_packet(rng, proto))}")
        return case

    def real(self, case):
        obs = []
        for line in case:
            t = line.split()
            obs.append(self.handle(int(t[1]), int(t[2]), unhx(t[3]), history=True))
        return obs


STREAMS = [DecodeStream(), DecodeHistStream()]
