"""T2 for C18: every {user callback} x {API call} x {loop mode} x {protocol} combination is reached through a real
conversation with instrumented locks (a blocking re-acquisition by the owner raises SelfDeadlock instead of hanging).
Checks (a) the static lock table extracted from the source (Gen/Locks.lean = py/locks.py) against what is observed:
locks held at callback entry, and whether the nested call blocks; (b) the property itself: the nested call returns and
its packets are written by the enclosing or the next loop iteration."""
from __future__ import annotations

import wire
from harness import PROTO, V2
from world import SelfDeadlock, World, held_locks, name_locks, pc, raw

import locks as L

APIS = ["publish0", "publish1", "subscribe", "unsubscribe", "disconnect", "reconnect", "message_callback_add", "message_callback_remove"]
SCEN = ["on_connect", "on_disconnect_eof", "on_disconnect_user", "on_message0", "on_message1", "on_message2", "on_publish_ack",
        "on_publish_q0", "on_subscribe", "on_unsubscribe", "on_pre_connect", "on_socket_open", "on_socket_close",
        "on_socket_register_write", "on_socket_unregister_write", "on_log",
        # callbacks reached from INSIDE a packet handler, through the write of the acknowledgement it sends: the transport
        # fails that write (on_disconnect), or the write first flushes a queued QoS 0 PUBLISH (on_publish)
        "on_disconnect_ackfail1", "on_disconnect_ackfail2", "on_disconnect_ackfail3", "on_publish_flush1", "on_publish_flush2",
        "on_publish_flush3"]
_TABLE = {}


def table():
    if not _TABLE:
        _TABLE.update(L.analyse())
    return _TABLE


def cb_of(scen):
    for suf in ("_eof", "_user", "_ackfail", "_flush", "_ack", "_q0"):
        scen = scen.split(suf)[0]
    return scen.rstrip("0123")


def api_name(a):
    return "publish" if a.startswith("publish") else a


def predicted(held, api, installed):
    """python transcription of Paho.Locks.selfDeadlock over the extracted table"""
    t = table()
    out = []
    for lock, chain, free, guards in t["acquires"].get(api_name(api), []):
        plain = t["kinds"].get(lock, "plain") != "reentrant"
        if lock == "<thread-join>":
            continue
        if plain and (lock in held or lock in chain) and not (set(free) & set(held)) and all(g in installed for g in guards):
            out.append(lock)
    return sorted(set(out))


def run_scenario(scen, api, ext, proto):
    import warnings
    warnings.simplefilter("ignore", DeprecationWarning)
    w = World()
    w.install()
    c = pc.Client(V2, client_id="cid", protocol=PROTO[proto])
    name_locks(c)
    res = {"held": None, "outcome": "not-reached", "sock": None, "lostwake": 0}
    fired = {"n": 0}
    cbname = cb_of(scen)
    installed = set()

    # (the write-registration callbacks also fire while the connection is being set up, where the library's own loop_write()
    # in the CONNACK handler would flush whatever a nested call queued: these two scenarios act on an established connection)
    armed = {"v": cbname not in ("on_socket_register_write", "on_socket_unregister_write")}

    def nested(cl):
        if fired["n"] or not armed["v"]:
            return
        fired["n"] = 1
        res["held"] = held_locks(cl)
        res["sock"] = raw(cl._sock).conn if cl._sock is not None else 0
        try:
            if api == "publish0":
                cl.publish("n/t", b"x", 0)
            elif api == "publish1":
                cl.publish("n/t", b"x", 1)
            elif api == "subscribe":
                cl.subscribe("n/s", 1)
            elif api == "unsubscribe":
                cl.unsubscribe("n/s")
            elif api == "disconnect":
                cl.disconnect()
            elif api == "reconnect":
                cl.reconnect()
            elif api == "message_callback_add":
                cl.message_callback_add("n/+", lambda *a: None)
            elif api == "message_callback_remove":
                cl.message_callback_remove("n/+")
            res["outcome"] = "returned"
        except SelfDeadlock as e:
            res["outcome"] = f"deadlock:{e}"
        except Exception as e:  # noqa: BLE001
            res["outcome"] = f"exc:{type(e).__name__}"

    reg = {"w": False}        # is a write registration outstanding, as the application's event loop sees it

    def hook(name):
        def cb(cl, *a):
            if name == "on_socket_register_write":
                reg["w"] = True
            elif name in ("on_socket_unregister_write", "on_socket_close"):
                reg["w"] = False
            if name == cbname:
                nested(cl)
        return cb
    # callbacks always present (they observe); socket callbacks only in ext mode (they change the write path)
    for n in ("on_connect", "on_disconnect", "on_message", "on_publish", "on_subscribe", "on_unsubscribe", "on_pre_connect"):
        setattr(c, n, hook(n))
        installed.add(n)
    if ext == 2 and not cbname.startswith("on_socket"):
        # an event loop that only wants to know when to watch the socket for writing: the two write-registration callbacks
        # alone (without on_socket_open / on_socket_close, reconnect() inside a callback does not run into known finding F17)
        for n in ("on_socket_register_write", "on_socket_unregister_write"):
            setattr(c, n, hook(n))
            installed.add(n)
        ext = True
    elif ext or cbname.startswith("on_socket"):
        for n in ("on_socket_open", "on_socket_close", "on_socket_register_write", "on_socket_unregister_write"):
            setattr(c, n, hook(n))
            installed.add(n)
        ext = True
    if cbname == "on_log":
        c.on_log = lambda cl, ud, level, buf: nested(cl) if "Received PUBLISH" in buf else None
        installed.add("on_log")

    def pump_write():
        # the application's event loop: a write event only for a socket with an outstanding write registration
        if ext:
            res["lostwake"] = res["lostwake"] or int(c._sock is not None and c.want_write() and not reg["w"])
            if reg["w"]:
                c.loop_write()
    try:
        c.connect("broker", 1883, 60)
        pump_write()
        s = w.cur()
        if s is not None:
            s.feed(wire.enc_connack(proto))
            c.loop_read()
            pump_write()
        s = w.cur()
        if scen == "on_disconnect_eof":
            s.feed_eof()
            c.loop_read()
        elif scen == "on_disconnect_user":
            c.disconnect()
            pump_write()
        elif scen.startswith("on_message") or scen == "on_log":
            q = int(scen[-1]) if scen[-1].isdigit() else 1
            s.feed(wire.enc_publish(proto, b"t", b"p", qos=q, mid=7))
            c.loop_read()
            pump_write()
            if q == 2:
                raw(c._sock).feed(wire.enc_ack(proto, wire.PUBREL, 7)) if c._sock else None
                c.loop_read()
        elif scen.startswith(("on_disconnect_ackfail", "on_publish_flush")):
            k = int(scen[-1])       # 1: QoS 1 PUBLISH -> PUBACK; 2: QoS 2 PUBLISH -> PUBREC; 3: PUBREL -> PUBCOMP
            if k == 3:
                s.feed(wire.enc_publish(proto, b"t", b"p", qos=2, mid=7))
                c.loop_read()
                pump_write()
            if scen.startswith("on_publish_flush"):
                s.outscript.append(("block",))
                c.publish("t", b"x", 0)          # stays queued behind a transport that would block
                s.outscript.clear()
            else:
                s.outscript.append(("error",))   # the next write fails
            s.feed(wire.enc_ack(proto, wire.PUBREL, 7) if k == 3 else wire.enc_publish(proto, b"t", b"p", qos=k, mid=7))
            c.loop_read()
            pump_write()
        elif scen == "on_publish_ack":
            c.publish("t", b"x", 1)
            pump_write()
            s.feed(wire.enc_ack(proto, wire.PUBACK, 1))
            c.loop_read()
        elif scen == "on_publish_q0":
            c.publish("t", b"x", 0)
            pump_write()
        elif scen == "on_subscribe":
            c.subscribe("t", 0)
            pump_write()
            s.feed(wire.enc_suback(proto, 1, [0]))
            c.loop_read()
        elif scen == "on_unsubscribe":
            c.unsubscribe("t")
            pump_write()
            s.feed(wire.enc_unsuback(proto, 1, codes=[0], props=[]))
            c.loop_read()
        elif scen == "on_socket_close":
            s.feed_eof()
            c.loop_read()
        elif scen in ("on_socket_register_write", "on_socket_unregister_write"):
            armed["v"] = True
            c.publish("t", b"x", 0)
            pump_write()
        # the next loop iteration: whatever the nested call queued must reach the transport
        # (an external event loop gives write events only to a socket with an outstanding write registration)
        pump = 0
        res["lostwake"] = int(ext and c._sock is not None and c.want_write() and not reg["w"])
        while c._sock is not None and c.want_write() and pump < 5 and (not ext or reg["w"]):
            c.loop_write()
            pump += 1
            res["lostwake"] = res["lostwake"] or int(ext and c._sock is not None and c.want_write() and not reg["w"])
    except SelfDeadlock as e:
        if res["outcome"] in ("not-reached", "returned"):
            res["outcome"] = f"deadlock-outer:{e}"
    except Exception as e:  # noqa: BLE001
        if res["outcome"] == "not-reached":
            res["outcome"] = f"outer-exc:{type(e).__name__}"
    # did the nested call's packet reach a wire?
    want = {"publish0": "PUBLISH", "publish1": "PUBLISH", "subscribe": "SUBSCRIBE", "unsubscribe": "UNSUBSCRIBE",
            "disconnect": "DISCONNECT", "reconnect": "CONNECT"}.get(api)
    written = None
    if want and res["outcome"] == "returned":
        written = False
        for so in w.socks:
            try:
                pk, _ = wire.split_packets(bytes(so.wire))
            except wire.Malformed:
                continue
            for p in pk:
                try:
                    d = wire.dec_client_packet(p, p[9] & 0x7F if (p[0] >> 4) == 1 and len(p) > 9 and p[3:7] != b"\x06MQI" else proto)
                except Exception:  # noqa: BLE001
                    d = {"type": wire.NAMES.get(p[0] >> 4, "?")}
                if d["type"] == want:
                    if want == "PUBLISH" and d.get("topic") != b"n/t":
                        continue
                    if want == "SUBSCRIBE" and not any(f[0] == b"n/s" for f in d.get("filters", [])):
                        continue
                    if want == "UNSUBSCRIBE" and b"n/s" not in d.get("filters", []):
                        continue
                    if want == "CONNECT" and so.conn == 1:
                        continue
                    written = True
    return res, sorted(installed), written


class LockStream:
    name = "lockscen"
    props = ["C18", "C16"]
    has_model = False

    def gen(self, rng, tier):
        # the space is finite: each case covers a slice of the full product deterministically from the PRNG
        combos = [(s, a, e, p) for s in SCEN for a in APIS for e in (0, 1, 2) for p in (4, 5)]
        k = 18 if tier == "quick" else 96
        start = rng.randrange(len(combos))
        return [f"scen {s} {a} ext={e} proto={p}" for (s, a, e, p) in [combos[(start + i * 37) % len(combos)] for i in range(k)]]

    def real(self, case):
        obs = []
        for line in case:
            t = line.split()
            res, installed, written = run_scenario(t[1], t[2], int(t[3].split("=")[1]), int(t[4].split("=")[1]))
            obs.append(f"held={','.join(res['held'] or []) if res['held'] is not None else '?'} outcome={res['outcome']} "
                       f"written={written} sock={res['sock']} lostwake={res['lostwake']} installed={','.join(installed)}")
        return obs

    @staticmethod
    def parse(o):
        d = {}
        for w in o.split(" "):
            k, _, v = w.partition("=")
            d[k] = v
        return d

    def correspondence(self, case, obs):
        """extraction vs observation: held locks at callback entry must be one of the extracted sets for that callback,
        and the nested call must block exactly when the table predicts it"""
        out = []
        t = table()
        for line, o in zip(case, obs):
            w = line.split()
            d = self.parse(o)
            if d["held"] == "?":
                continue
            scen, api = w[1], w[2]
            cbname = cb_of(scen)
            held = sorted(x for x in d["held"].split(",") if x)
            sets = [sorted(h) for site, hs in t["sites"].items() if site.split("@")[0] == cbname for h in hs]
            if held not in sets:
                out.append(f"{line}: locks held at {cbname} entry {held} not among the extracted sets {sets}")
            pred = predicted(held, api, set(d["installed"].split(",")))
            obs_dead = d["outcome"].startswith("deadlock:")
            if obs_dead != bool(pred):
                out.append(f"{line}: observed outcome {d['outcome']} but the extracted table predicts deadlock on {pred or 'nothing'}")
            elif obs_dead and d["outcome"].split(":")[1] not in pred:
                out.append(f"{line}: observed {d['outcome']} but the table predicts {pred}")
        return out

    def monitor_C18(self, case, obs):
        hits = []
        for i, (line, o) in enumerate(zip(case, obs)):
            d = self.parse(o)
            w = line.split()
            if d["outcome"].startswith("deadlock"):
                sockcb = "on_socket_open" in d["installed"]
                if w[2] == "reconnect" and "_in_callback_mutex" in d["outcome"] and sockcb:
                    hits.append((i, "witness", f"F17 {w[1]} x reconnect with socket callbacks installed: {d['outcome']}"))
                else:
                    hits.append((i, "self-deadlock", f"{w[2]}() called inside {w[1]} ({w[3]}, {w[4]}) would block forever: {d['outcome']}"))
            elif d["outcome"].startswith(("exc:", "outer-exc")) and not (w[2] == "reconnect" and "exc" in d["outcome"]):
                hits.append((i, "internal-error", f"{w[2]}() inside {w[1]}: {d['outcome']}"))
            elif d["outcome"] == "returned" and d["written"] == "False":
                # a packet queued by a call made when no socket was open cannot be written; disconnect() after the
                # connection is gone, publish0 with no connection etc. return an error code instead
                # (reconnect() opens a socket of its own: its CONNECT must be written also when it is called from on_disconnect)
                if (d["sock"] not in ("0", "None") and not (w[1].startswith("on_disconnect") or w[1] in ("on_socket_close", "on_pre_connect"))) \
                        or (w[2] == "reconnect" and w[1].startswith("on_disconnect")):
                    hits.append((i, "not-written", f"packet of {w[2]}() called inside {w[1]} ({w[3]}) was not written by the enclosing or the next loop iteration"))
        return hits

    def monitor_C16(self, case, obs):
        """C16 in the presence of API calls made from inside callbacks: whenever control is back with the application, an open
        socket and unsent data, a write registration is outstanding (as seen through the application's own socket callbacks)"""
        hits = []
        for i, (line, o) in enumerate(zip(case, obs)):
            d = self.parse(o)
            w = line.split()
            if d.get("lostwake") == "1" and d["outcome"] == "returned":
                hits.append((i, "lost-wakeup", f"{w[2]}() called inside {w[1]} ({w[3]}, {w[4]}): control returned with an open socket, unsent data and no write registration outstanding"))
        return hits

    monitors = {"C18": monitor_C18, "C16": monitor_C16}

    def features(self, case, obs):
        f = set()
        for line, o in zip(case, obs):
            w = line.split()
            d = self.parse(o)
            f.add(w[1] + ":" + d["outcome"].split(":")[0])
        return f

    def nontrivial(self, case, obs):
        return any("outcome=returned" in o for o in obs)


STREAMS = [LockStream()]
