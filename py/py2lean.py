"""T1, second part: a small Python -> Lean 4 translator for the loop-and-arithmetic helpers of the library.

The functions listed in FUNCS are translated statement by statement from the AST of /repo's *current* working tree into
`lean/Paho/Gen/Fn*.lean` (one file per consumer, regenerated on every run).  `PahoProofs/Properties/Fn*.lean` prove each generated function
equal, for all arguments, to the hand-written model function the property theorems are about - so a change to the body of
one of these functions changes the generated definition and the equivalence proof no longer closes (or the translator
reports a construct outside its subset, which is reported as a missing anchor).

Subset: int / bytes / bytearray / list-of-int locals; assignments, augmented assignments, `if` (with or without `else`),
`while True:` / `while 1:` loops left by `return` or `break`, `.append(x)`, `raise E(...)`, `return e`;
expressions: names, int and bytes literals, + - * // % (positive literal divisor) | & on ints, comparisons (chained),
and / or / not, len(x), x[0], x[1:], bytes([e]), tuples.  Python ints are Lean `Int`; `//` and `%` by a positive
literal are Lean's `/` and `%` (Euclidean = floor for a positive divisor); `|` and `&` go through `Py.bor` / `Py.band`
(defined for non-negative operands, an `.other` error otherwise - never a silent wrong value); `bytes([e])` and
`bytearray.append(e)` go through `Py.byteOf` (ValueError outside 0..255); running out of fuel is the error `.other`.
"""
from __future__ import annotations

import ast
import os

from extract import PKG, Missing

FUNCS = [
    dict(file="FnRemLen", src="client.py", qual="Client._pack_remaining_length", name="packRemainingLength",
         params=[("packet", "Bytes"), ("remaining_length", "Int")], fuel="(remaining_length.toNat + 1)", ret="Bytes"),
    dict(file="FnVbi", src="properties.py", qual="VariableByteIntegers.encode", name="vbiEncode",
         params=[("x", "Int")], fuel="(x.toNat + 1)", ret="Bytes"),
    dict(file="FnVbi", src="properties.py", qual="VariableByteIntegers.decode", name="vbiDecode",
         params=[("buffer", "Bytes")], fuel="(buffer.length + 1)", ret="(Int × Int)"),
]
# loop-free functions whose state lives in attributes of `self`: `attrs` gives the Lean type of every attribute read or
# written; the translated function takes the attributes it reads (in this order) before its parameters and returns
# (result, attributes it writes) - the listed `writes` in that order
STRAIGHT = [
    dict(file="FnMid", src="client.py", qual="Client._mid_generate", name="midGenerate", params=[],
         attrs=[("_last_mid", "Int")], writes=["_last_mid"], ret="Int"),
    dict(file="FnSubOpts", src="subscribeoptions.py", qual="SubscribeOptions.pack", name="subOptsPack", params=[],
         attrs=[("QoS", "Int"), ("noLocal", "Bool"), ("retainAsPublished", "Bool"), ("retainHandling", "Int")], writes=[], ret="Bytes"),
    dict(file="FnSubOpts", src="subscribeoptions.py", qual="SubscribeOptions.unpack", name="subOptsUnpack", params=[("buffer", "Bytes")],
         attrs=[("QoS", "Int"), ("noLocal", "Bool"), ("retainAsPublished", "Bool"), ("retainHandling", "Int")],
         writes=["QoS", "noLocal", "retainAsPublished", "retainHandling"], ret="Int"),
    dict(file="FnValidate", src="client.py", qual="Client._filter_wildcard_len_check", name="filterWildcardLenCheck",
         params=[("sub", "Bytes")], attrs=[], writes=[], ret="Int"),
    # (prefix=True: the statements before the first loop only - here the computation of the next back-off delay, before the loop
    # that sleeps it away in slices; the result is the local named by `ret_local`)
    dict(file="FnBackoff", src="client.py", qual="Client._reconnect_wait", name="reconnectWaitDelay", params=[], prefix=True,
         attrs=[("_reconnect_delay", "OptInt"), ("_reconnect_min_delay", "Int"), ("_reconnect_max_delay", "Int")],
         writes=["_reconnect_delay"], ret="Int", ret_local="remaining", clock_param="now"),
    dict(file="FnInfo", src="client.py", qual="MQTTMessageInfo.is_published", name="isPublished", params=[],
         attrs=[("rc", "Int"), ("_published", "Bool")], writes=[], ret="Bool"),
    dict(file="FnValidate", src="client.py", qual="Client._raise_for_invalid_topic", name="raiseForInvalidTopic",
         params=[("topic", "Bytes")], attrs=[], writes=[], ret="Unit", falls_off=True),
]
# methods with a `for m in self.<table>.values():` loop over message records (class MQTTMessage): the record's fields used
# are listed with their Lean types; the loop body becomes `<name>_body`, a function of the attributes of `self`, and the
# record; the loop a structural recursion over the list of records threading the written attributes.  Calls
# `self.<callee>()` listed under `calls` are calls to the (read-only, parameterless) translated function of that name.
RECLOOP = [
    dict(file="FnSession", src="client.py", qual="Client._check_clean_session", name="checkCleanSession", params=[], straight=True,
         attrs=[("_protocol", "Int"), ("_clean_start", "Int"), ("_mqttv5_first_connect", "Bool"), ("_clean_session", "Bool")],
         writes=[], ret="Bool"),
    dict(file="FnSession", src="client.py", qual="Client._messages_reconnect_reset_out", name="messagesReconnectResetOut", params=[],
         attrs=[("_inflight_messages", "Int"), ("_max_inflight_messages", "Int"),
                ("_protocol", "Int"), ("_clean_start", "Int"), ("_mqttv5_first_connect", "Bool"), ("_clean_session", "Bool")],
         writes=["_inflight_messages"], ret="Unit",
         loop=dict(var="m", over="_out_messages", record="PyOutMsg",
                   fields=[("timestamp", "Int"), ("qos", "Int"), ("state", "Int"), ("dup", "Bool")]),
         calls={"_check_clean_session": ("checkCleanSession", ["_protocol", "_clean_start", "_mqttv5_first_connect", "_clean_session"], "Bool")}),
]
# callbacks of the one-shot helpers: functions of (userdata, listed parameters) that call methods of the client; the
# translated function returns the new userdata and the calls made on the client, in order (Paho.Py.HEff)
CALLBACKS = [
    dict(file="FnHelpers", src="subscribe.py", qual="_on_message_simple", name="onMessageSimple", state="SimpleUD",
         dict_fields={"msg_count": "Int", "retained": "Bool", "messages": "PyMsgs"}, params=[("message", "PyInMsg")],
         obj_fields={"message": {"retain": "Bool"}}),
    dict(file="FnHelpers", src="subscribe.py", qual="_on_connect", name="subOnConnect", state="SubUD",
         dict_fields={"topics": "PyTopics", "qos": "Int"}, params=[("reason_code", "Int")]),
    dict(file="FnHelpers", src="publish.py", qual="_do_publish", name="doPublish", state="List PyPubMsg", params=[]),
    dict(file="FnHelpers", src="publish.py", qual="_on_connect", name="pubOnConnect", state="List PyPubMsg",
         params=[("reason_code", "Int")], calls={"_do_publish": "doPublish"}),
    dict(file="FnHelpers", src="publish.py", qual="_on_publish", name="pubOnPublish", state="List PyPubMsg", params=[],
         calls={"_do_publish": "doPublish"}),
]
# methods whose effect on the client is a sequence of calls of other methods and attribute assignments: the translated function
# takes the attributes it reads (and `now` for `time_func()`), and returns that sequence (Paho.Py.MEff) in execution order.  A
# call listed under `calls` may change the attributes it `clobbers` ("*" = any): reading such an attribute afterwards is outside
# the subset (reported, never guessed).  `try: self.f() except Exception: A else: B` becomes a branch on a Bool parameter.
EFFECTS = [
    dict(file="FnKeepalive", src="client.py", qual="Client._check_keepalive", name="checkKeepalive", params=[],
         attrs=[("_keepalive", "Int"), ("_last_msg_out", "Int"), ("_last_msg_in", "Int"), ("_state", "Int"), ("_ping_t", "Int")],
         none_tests={"_sock": "sock_open"}, clock="now",
         calls={"_send_pingreq": dict(clobbers="*", raises="pingreq_raises"),
                "_sock_close": dict(clobbers=["_sock"]),
                "_do_on_disconnect": dict(clobbers="*", kwargs=["packet_from_broker", "v1_rc"])}),
    # (attributes of type Ref are object references compared with `is`: 0 stands for None.  An attribute read after an
    # UNCONDITIONAL call that may change it is a fresh parameter `self_<attr>_<k>` - its value after the k-th such call -
    # which the equivalence theorem instantiates with the model's state after that call)
    dict(file="FnKeepalive", src="client.py", qual="Client.loop_misc", name="loopMisc", params=[], ret="Int",
         attrs=[("_sock", "Ref"), ("_keepalive", "Int"), ("_state", "Int"), ("_ping_t", "Int")], clock="now",
         calls={"_check_keepalive": dict(clobbers="*"),
                "_sock_close": dict(clobbers=["_sock"]),
                "_do_on_disconnect": dict(clobbers="*", kwargs=["packet_from_broker", "v1_rc"])}),
    # (`returns`: the call's result is a parameter `ret_<callee>` of the translated function - the callee's behaviour is the
    # equivalence theorem's business; `ignore`: calls without effect on the client state, e.g. logging)
    dict(file="FnKeepalive", src="client.py", qual="Client._send_pingreq", name="sendPingreq", params=[], ret="Int",
         attrs=[], clock="now", ignore=["_easy_log"],
         calls={"_send_simple_command": dict(clobbers="*", args=1, returns=True)}),
    # (type Fn: a user callback attribute - installed or None; calling the local it was copied to is the effect
    # `call "<name>" [socket]`, which may raise: a Bool parameter; `raise` in the handler re-raises the user's exception)
    dict(file="FnSockCb", src="client.py", qual="Client._call_socket_register_write", name="callSocketRegisterWrite", params=[],
         attrs=[("_sock", "Ref"), ("_registered_write", "Bool"), ("on_socket_register_write", "Fn"), ("suppress_exceptions", "Bool")],
         clock="now", ignore=["_easy_log"], calls={}, fn_calls={"on_socket_register_write": "cb_raises"}, fn_keeps=["suppress_exceptions"]),
    dict(file="FnSockCb", src="client.py", qual="Client._call_socket_unregister_write", name="callSocketUnregisterWrite", params=[("sock", "Ref")],
         attrs=[("_sock", "Ref"), ("_registered_write", "Bool"), ("on_socket_unregister_write", "Fn"), ("suppress_exceptions", "Bool")],
         clock="now", ignore=["_easy_log"], calls={}, fn_calls={"on_socket_unregister_write": "cb_raises"}, fn_keeps=["suppress_exceptions"]),
    # (`try: A finally: B` is A followed by B: the calls in A are taken not to raise - whether a callee raises is a parameter of
    # the callee's own translation -; `<local>.close()` on a socket reference is the effect `call "close" [<local>]`)
    dict(file="FnSockCb", src="client.py", qual="Client._sock_close", name="sockClose", params=[],
         attrs=[("_sock", "Ref")], clock="now", ignore=[],
         calls={"_call_socket_unregister_write": dict(clobbers="*", args=1), "_call_socket_close": dict(clobbers="*", args=1)}),
    # (an entry of the `_in_packet` dictionary is an attribute named `_in_packet.<key>`)
    dict(file="FnKeepalive", src="client.py", qual="Client._handle_pingresp", name="handlePingresp", params=[], ret="Int",
         attrs=[("_in_packet.remaining_length", "Int")], clock="now", ignore=["_easy_log"], calls={}),
    dict(file="FnLoopRc", src="client.py", qual="Client.ack", name="ack", params=[("mid", "Int"), ("qos", "Int")], ret="Int",
         attrs=[("_manual_ack", "Bool")], clock="now",
         calls={"_send_puback": dict(clobbers="*", args=1, returns=True), "_send_pubcomp": dict(clobbers="*", args=1, returns=True)}),
    # (`try: <every path returns> finally: F`: the value returned is kept in a local, F runs, then it is returned; a call declared
    # `pure` has no effect on the client - only its result, a parameter)
    dict(file="FnSockCb", src="client.py", qual="Client.loop_write", name="loopWrite", params=[], ret="Int",
         attrs=[("_sock", "Ref")], clock="now",
         calls={"_packet_write": dict(clobbers="*", returns=True), "_loop_rc_handle": dict(clobbers="*", args=1, returns=True),
                "want_write": dict(clobbers=[], returns="Bool", pure=True),
                "_call_socket_register_write": dict(clobbers="*"), "_call_socket_unregister_write": dict(clobbers="*")}),
    # (two observers the properties speak about: `len(self.<attr>)` of a container attribute is the Int parameter `self_<attr>_len`)
    dict(file="FnLoopRc", src="client.py", qual="Client.is_connected", name="isConnected", params=[], ret="Bool",
         attrs=[("_state", "Int")], clock="now", calls={}),
    dict(file="FnLoopRc", src="client.py", qual="Client.want_write", name="wantWrite", params=[], ret="Bool",
         attrs=[("_out_packet.len", "Int")], clock="now", calls={}),
    # (args="opaque": the arguments are objects the translated function does not look at)
    dict(file="FnLoopRc", src="client.py", qual="Client.disconnect", name="disconnect", params=[], ret="Int",
         attrs=[("_sock", "Ref")], clock="now",
         calls={"_send_disconnect": dict(clobbers="*", args="opaque", returns=True)}),
    dict(file="FnLoopRc", src="client.py", qual="Client._loop_rc_handle", name="loopRcHandle", params=[("rc", "Int")], ret="Int",
         attrs=[("_sock", "Ref"), ("_state", "Int")], clock="now",
         calls={"_sock_close": dict(clobbers=["_sock"]),
                "_do_on_disconnect": dict(clobbers="*", kwargs=["packet_from_broker", "v1_rc"])}),
]
# generated files whose definitions live in a namespace of their own (their module constants would otherwise clash with those
# of another generated file imported by the same proof)
NS = {"FnLoopRc": ".LoopRc", "FnSockCb": ".SockCb"}
EXC = {"ValueError": ".valueError", "TypeError": ".typeError", "AssertionError": ".assertionError", "IndexError": ".indexError", "MQTTException": ".mqttException", "RuntimeError": ".runtimeError"}
RESERVED = {"bytes": "bytes_", "end": "end_", "from": "from_", "at": "at_", "open": "open_"}


def lname(n):
    return RESERVED.get(n, n)


_MODS = {}


def module_const(src, name):
    """value of the module-level integer constant `name` of the live module src (ints and IntEnum members; not bools)"""
    import importlib
    mod = _MODS.get(src)
    if mod is None:
        try:
            mod = _MODS[src] = importlib.import_module("paho.mqtt." + src[:-3])
        except Exception:  # noqa: BLE001
            return None
    v = getattr(mod, name, None)
    if isinstance(v, bool) or not isinstance(v, int):
        return None
    return int(v)


class Tr:
    def __init__(self, cfg, fn: ast.FunctionDef, consts=None):
        self.cfg = cfg
        self.fn = fn
        self.types = dict(cfg["params"])     # python name -> Lean type
        self.ret_suffix = None                # straight-line functions: the written attributes returned with the result
        self.consts = consts if consts is not None else {}   # module-level integer constants used: python name -> value
        self.rec = None                       # (loop variable, {field: type}) while translating a record-loop body

    # ---------------------------------------------------------------- expressions: returns (lean text, type)
    def expr(self, e):
        if isinstance(e, ast.Constant):
            if isinstance(e.value, bool):
                return ("true" if e.value else "false"), "Bool"
            if isinstance(e.value, int):
                return f"({e.value} : Int)", "Int"
            if isinstance(e.value, bytes):
                return "([" + ", ".join(str(b) for b in e.value) + "] : Bytes)", "Bytes"
            raise Missing(f"constant {e.value!r}")
        if isinstance(e, ast.Name):
            if e.id not in self.types:
                v = module_const(self.cfg["src"], e.id)
                if v is None:
                    raise Missing(f"unknown name {e.id}")
                self.consts[e.id] = v
                return f"c_{e.id}", "Int"
            return lname(e.id), self.types[e.id]
        if self.rec and isinstance(e, ast.Attribute) and isinstance(e.value, ast.Name) and e.value.id == self.rec[0]:
            if e.attr not in self.rec[1]:
                raise Missing(f"field {e.attr} of the loop record is not modelled")
            return f"{self.rec[0]}.{e.attr}", self.rec[1][e.attr]
        if isinstance(e, ast.Call) and isinstance(e.func, ast.Attribute) and isinstance(e.func.value, ast.Name) \
                and e.func.value.id == "self" and e.func.attr in self.cfg.get("calls", {}) and not e.args and not e.keywords:
            callee, attrs, rt = self.cfg["calls"][e.func.attr]
            return f"(← {callee} " + " ".join("self_" + a.lstrip("_") for a in attrs) + ")", rt
        if isinstance(e, ast.Compare) and len(e.ops) == 1 and isinstance(e.ops[0], (ast.Is, ast.IsNot)) \
                and isinstance(e.comparators[0], ast.Constant) and e.comparators[0].value is None \
                and isinstance(e.left, ast.Attribute) and isinstance(e.left.value, ast.Name) and e.left.value.id == "self" \
                and self.types.get("self." + e.left.attr) == "OptInt":
            v = "self_" + e.left.attr.lstrip("_")
            return (f"({v}).isNone" if isinstance(e.ops[0], ast.Is) else f"({v}).isSome"), "Bool"
        if isinstance(e, ast.Call) and isinstance(e.func, ast.Name) and e.func.id in ("min", "max") and len(e.args) == 2 and not e.keywords:
            a, ta = self.expr(e.args[0])
            b, tb = self.expr(e.args[1])
            if ta != "Int" or tb != "Int":
                raise Missing(f"{e.func.id}() of {ta}, {tb}")
            return f"({e.func.id} {a} {b})", "Int"
        if isinstance(e, ast.Attribute) and isinstance(e.value, ast.Name) and e.value.id == "self":
            key = "self." + e.attr
            if key not in self.types:
                raise Missing(f"unknown attribute {key}")
            if self.types[key] == "OptInt":
                # an int-or-None attribute used as a number: TypeError when it is None
                return f"(← Py.optGet self_{e.attr.lstrip('_')})", "Int"
            return "self_" + e.attr.lstrip("_"), self.types[key]
        if isinstance(e, ast.IfExp):
            c = self.test(e.test)
            a, ta = self.expr(e.body)
            b, tb = self.expr(e.orelse)
            if ta != tb:
                raise Missing("conditional expression with branches of different types")
            return f"(if {c} then {a} else {b})", ta
        if isinstance(e, ast.List) and e.elts:
            vs = [self.expr(v) for v in e.elts]
            if any(t != "Int" for _, t in vs):
                raise Missing("list literal of non-ints")
            return "[" + ", ".join(v for v, _ in vs) + "]", "List Int"
        if isinstance(e, ast.BinOp) and isinstance(e.op, (ast.LShift, ast.RShift)):
            a, ta = self.expr(e.left)
            if ta != "Int" or not (isinstance(e.right, ast.Constant) and isinstance(e.right.value, int) and 0 <= e.right.value < 64):
                raise Missing("shift of a non-int or by a non-literal")
            # on a non-negative int `<< k` is `* 2^k` and `>> k` is `// 2^k`; a negative operand is not modelled
            return f"(← Py.{'shl' if isinstance(e.op, ast.LShift) else 'shr'} {a} {e.right.value})", "Int"
        if isinstance(e, ast.BinOp):
            a, ta = self.expr(e.left)
            b, tb = self.expr(e.right)
            if isinstance(e.op, ast.Add) and ta == tb == "Bytes":
                return f"({a} ++ {b})", "Bytes"
            if ta != "Int" or tb != "Int":
                raise Missing(f"binary operator on {ta}, {tb}")
            if isinstance(e.op, (ast.FloorDiv, ast.Mod)):
                if not (isinstance(e.right, ast.Constant) and isinstance(e.right.value, int) and e.right.value > 0):
                    raise Missing("// or % by something other than a positive literal")
                return f"({a} {'/' if isinstance(e.op, ast.FloorDiv) else '%'} {b})", "Int"
            if isinstance(e.op, (ast.BitOr, ast.BitAnd)):
                return f"(← Py.{'bor' if isinstance(e.op, ast.BitOr) else 'band'} {a} {b})", "Int"
            op = {ast.Add: "+", ast.Sub: "-", ast.Mult: "*"}.get(type(e.op))
            if op is None:
                raise Missing(f"operator {type(e.op).__name__}")
            return f"({a} {op} {b})", "Int"
        if isinstance(e, ast.Compare) and len(e.ops) == 1 and isinstance(e.ops[0], (ast.In, ast.NotIn)) \
                and isinstance(e.left, ast.Constant) and isinstance(e.left.value, bytes) and len(e.left.value) >= 1:
            hay, th = self.expr(e.comparators[0])
            if th != "Bytes":
                raise Missing("bytes membership in a non-bytes value")
            needle = e.left.value
            mem = f"(({hay}).contains {needle[0]})" if len(needle) == 1 else f"(hasSub [{', '.join(str(b) for b in needle)}] {hay})"
            return (mem if isinstance(e.ops[0], ast.In) else f"(!{mem})"), "Bool"
        if isinstance(e, ast.Call) and isinstance(e.func, ast.Name) and e.func.id == "any" and len(e.args) == 1 \
                and isinstance(e.args[0], ast.GeneratorExp) and len(e.args[0].generators) == 1:
            g = e.args[0].generators[0]
            it = g.iter
            if not (isinstance(g.target, ast.Name) and isinstance(it, ast.Call) and isinstance(it.func, ast.Attribute) and it.func.attr == "split"
                    and len(it.args) == 1 and isinstance(it.args[0], ast.Constant) and isinstance(it.args[0].value, bytes) and len(it.args[0].value) == 1):
                raise Missing("any() over something other than x.split(<one byte>)")
            src, ts = self.expr(it.func.value)
            if ts != "Bytes":
                raise Missing("split of a non-bytes value")
            v = g.target.id
            saved = self.types.get(v)
            self.types[v] = "Bytes"
            conds = [self.test(c) for c in g.ifs]
            elt = self.test(e.args[0].elt)
            if saved is None:
                del self.types[v]
            else:
                self.types[v] = saved
            body = " && ".join(conds + [elt])
            return f"((splitOn {it.args[0].value[0]} {src}).any (fun {lname(v)} => {body}))", "Bool"
        if isinstance(e, ast.Attribute) and isinstance(e.value, ast.Name) and e.value.id == "MQTTErrorCode":
            import enum as _enum
            import importlib.util as _u
            spec = _u.spec_from_file_location("_paho_enums", os.path.join(PKG, "enums.py"))
            mod = _u.module_from_spec(spec)
            spec.loader.exec_module(mod)
            return f"({int(getattr(mod.MQTTErrorCode, e.attr))} : Int)", "Int"
        if isinstance(e, ast.Compare) and len(e.ops) == 1 and isinstance(e.ops[0], (ast.In, ast.NotIn)) \
                and isinstance(e.comparators[0], ast.Tuple) and e.comparators[0].elts \
                and all(isinstance(x, (ast.Name, ast.Attribute)) or (isinstance(x, ast.Constant) and isinstance(x.value, int)) for x in e.comparators[0].elts):
            a, ta = self.expr(e.left)
            if ta != "Int":
                raise Missing("membership test on a non-int")
            elts = [self.expr(x) for x in e.comparators[0].elts]
            if any(t != "Int" for _, t in elts):
                raise Missing("membership test in a tuple of non-ints")
            mem = "(" + " || ".join(f"({a} == {x})" for x, _ in elts) + ")"
            return (mem if isinstance(e.ops[0], ast.In) else f"(!{mem})"), "Bool"
        if isinstance(e, ast.Compare):
            parts = []
            left = e.left
            for op, right in zip(e.ops, e.comparators):
                a, ta = self.expr(left)
                b, tb = self.expr(right)
                if ta != "Int" or tb != "Int":
                    raise Missing("comparison of non-ints")
                sym = {ast.Lt: "<", ast.LtE: "≤", ast.Gt: ">", ast.GtE: "≥", ast.Eq: "==", ast.NotEq: "!="}.get(type(op))
                if sym is None:
                    raise Missing(f"comparison {type(op).__name__}")
                parts.append(f"decide ({a} {sym} {b})" if sym not in ("==", "!=") else f"({a} {sym} {b})")
                left = right
            return "(" + " && ".join(parts) + ")", "Bool"
        if isinstance(e, ast.BoolOp):
            vs = [self.expr(v) for v in e.values]
            if any(t != "Bool" for _, t in vs):
                raise Missing("and/or on non-Bool")
            return "(" + (" && " if isinstance(e.op, ast.And) else " || ").join(v for v, _ in vs) + ")", "Bool"
        if isinstance(e, ast.UnaryOp) and isinstance(e.op, ast.Not):
            v, t = self.expr(e.operand)
            if t != "Bool":
                raise Missing("not on non-Bool")
            return f"(!{v})", "Bool"
        if isinstance(e, ast.Call) and isinstance(e.func, ast.Name) and e.func.id == "len" and len(e.args) == 1:
            v, t = self.expr(e.args[0])
            return f"(({v}).length : Int)", "Int"
        if isinstance(e, ast.Call) and isinstance(e.func, ast.Name) and e.func.id == "bytes" and len(e.args) == 1 \
                and isinstance(e.args[0], ast.Name) and self.types.get(e.args[0].id) == "List Int":
            return f"(← ({lname(e.args[0].id)}).mapM Py.byteOf)", "Bytes"
        if isinstance(e, ast.Call) and isinstance(e.func, ast.Name) and e.func.id == "bytes" and len(e.args) == 1 \
                and isinstance(e.args[0], ast.List) and len(e.args[0].elts) == 1:
            v, t = self.expr(e.args[0].elts[0])
            if t != "Int":
                raise Missing("bytes([non-int])")
            return f"[← Py.byteOf {v}]", "Bytes"
        if isinstance(e, ast.Subscript):
            v, t = self.expr(e.value)
            if t != "Bytes":
                raise Missing("subscript of non-bytes")
            if isinstance(e.slice, ast.Constant) and e.slice.value == 0:
                return f"(← Py.first {v})", "Int"
            if isinstance(e.slice, ast.Slice) and isinstance(e.slice.lower, ast.Constant) and e.slice.upper is None and e.slice.step is None:
                return f"(({v}).drop {e.slice.lower.value})", "Bytes"
            raise Missing("subscript form")
        if isinstance(e, ast.Tuple):
            vs = [self.expr(v) for v in e.elts]
            return "(" + ", ".join(v for v, _ in vs) + ")", "(" + " × ".join(t for _, t in vs) + ")"
        raise Missing(f"expression {ast.dump(e)[:60]}")

    def test(self, e):
        # truthiness: `while 1`, `if x` are only accepted for Bool-typed tests
        v, t = self.expr(e)
        if t != "Bool":
            raise Missing("non-Bool test")
        return v

    # ---------------------------------------------------------------- statements
    def assigned(self, stmts):
        out = []
        for s in stmts:
            for n in ast.walk(s):
                if isinstance(n, (ast.Assign, ast.AugAssign)):
                    t = n.targets[0] if isinstance(n, ast.Assign) else n.target
                    if isinstance(t, ast.Name) and t.id not in out:
                        out.append(t.id)
                if isinstance(n, ast.Call) and isinstance(n.func, ast.Attribute) and n.func.attr == "append" and isinstance(n.func.value, ast.Name):
                    if n.func.value.id not in out:
                        out.append(n.func.value.id)
        return out

    def stmts(self, body, ind, ctl):
        """ctl: None outside a loop; inside: the text of the state tuple (for `continue` at the end / `break`)"""
        out = []
        pad = "  " * ind
        for s in body:
            if isinstance(s, ast.Expr) and isinstance(s.value, ast.Constant) and isinstance(s.value.value, str):
                continue                                   # docstring
            if isinstance(s, ast.Assign) and len(s.targets) == 1 and isinstance(s.targets[0], ast.Name) and isinstance(s.value, ast.Call) \
                    and isinstance(s.value.func, ast.Name) and s.value.func.id == "time_func" and not s.value.args and self.cfg.get("clock_param"):
                if s.targets[0].id != self.cfg["clock_param"] or s.targets[0].id in self.types:
                    raise Missing("time_func() read more than once / into another name")
                self.types[s.targets[0].id] = "Int"          # the parameter
            elif isinstance(s, ast.Assign) and len(s.targets) == 1 and isinstance(s.targets[0], ast.Name):
                n = s.targets[0].id
                if isinstance(s.value, ast.List) and not s.value.elts:
                    v, t = "([] : List Int)", "List Int"
                else:
                    v, t = self.expr(s.value)
                if n in self.types:
                    if self.types[n] != t:
                        raise Missing(f"{n} changes type {self.types[n]} -> {t}")
                    out.append(f"{pad}{lname(n)} := {v}")
                else:
                    self.types[n] = t
                    out.append(f"{pad}let mut {lname(n)} : {t} := {v}")
            elif isinstance(s, ast.Assign) and len(s.targets) == 1 and isinstance(s.targets[0], ast.Attribute) \
                    and isinstance(s.targets[0].value, ast.Name) and s.targets[0].value.id == "self":
                key = "self." + s.targets[0].attr
                v, t = self.expr(s.value)
                if self.types.get(key) == "OptInt" and t == "Int":
                    v, t = f"(some {v})", "OptInt"
                if self.types.get(key) != t:
                    raise Missing(f"{key} assigned a {t}")
                out.append(f"{pad}self_{s.targets[0].attr.lstrip('_')} := {v}")
            elif self.rec and isinstance(s, ast.Assign) and len(s.targets) == 1 and isinstance(s.targets[0], ast.Attribute) \
                    and isinstance(s.targets[0].value, ast.Name) and s.targets[0].value.id == self.rec[0]:
                f = s.targets[0].attr
                v, t = self.expr(s.value)
                if self.rec[1].get(f) != t:
                    raise Missing(f"{self.rec[0]}.{f} assigned a {t}")
                out.append(f"{pad}{self.rec[0]} := {{ {self.rec[0]} with {f} := {v} }}")
            elif isinstance(s, ast.Pass):
                out.append(f"{pad}pure ()")
            elif isinstance(s, ast.AugAssign) and isinstance(s.target, ast.Attribute) and isinstance(s.target.value, ast.Name) \
                    and s.target.value.id == "self":
                v, t = self.expr(ast.BinOp(left=s.target, op=s.op, right=s.value))
                out.append(f"{pad}self_{s.target.attr.lstrip('_')} := {v}")
            elif isinstance(s, ast.With) and len(s.items) == 1 and isinstance(s.items[0].context_expr, ast.Attribute) \
                    and (s.items[0].context_expr.attr.endswith("_mutex") or s.items[0].context_expr.attr == "_condition") \
                    and s.items[0].optional_vars is None:
                out += self.stmts(s.body, ind, ctl)
            elif isinstance(s, ast.AugAssign) and isinstance(s.target, ast.Name):
                v, t = self.expr(ast.BinOp(left=ast.Name(id=s.target.id, ctx=ast.Load()), op=s.op, right=s.value))
                out.append(f"{pad}{lname(s.target.id)} := {v}")
            elif isinstance(s, ast.Expr) and isinstance(s.value, ast.Call) and isinstance(s.value.func, ast.Attribute) \
                    and s.value.func.attr == "append" and isinstance(s.value.func.value, ast.Name) and len(s.value.args) == 1:
                n = s.value.func.value.id
                v, t = self.expr(s.value.args[0])
                if self.types.get(n) == "Bytes":
                    out.append(f"{pad}{lname(n)} := {lname(n)} ++ [← Py.byteOf {v}]")
                elif self.types.get(n) == "List Int":
                    out.append(f"{pad}{lname(n)} := {lname(n)} ++ [{v}]")
                else:
                    raise Missing(f"append to {n} of type {self.types.get(n)}")
            elif isinstance(s, ast.If):
                out.append(f"{pad}if {self.test(s.test)} then")
                out += self.stmts(s.body, ind + 1, ctl) or [f"{pad}  pure ()"]
                if s.orelse:
                    out.append(f"{pad}else")
                    out += self.stmts(s.orelse, ind + 1, ctl)
            elif isinstance(s, ast.Raise):
                nm = s.exc.func.id if isinstance(s.exc, ast.Call) and isinstance(s.exc.func, ast.Name) else \
                    s.exc.func.attr if isinstance(s.exc, ast.Call) and isinstance(s.exc.func, ast.Attribute) else None
                if nm not in EXC:
                    raise Missing(f"raise {ast.dump(s.exc)[:40]}")
                out.append(f"{pad}throw Exc{EXC[nm]}")
            elif isinstance(s, ast.Return):
                if self.rec:
                    raise Missing("return inside a record loop")
                v, t = self.expr(s.value)
                if self.cfg["ret"] == "Bool" and t == "Int":
                    v = f"({v} != 0)"                       # truthiness of an int
                if self.ret_suffix is not None:
                    v = "(" + ", ".join([v] + self.ret_suffix) + ")"
                out.append(f"{pad}return " + (f"Py.Ctl.ret {v}" if ctl else v))
            elif isinstance(s, ast.Break):
                if not ctl:
                    raise Missing("break outside loop")
                out.append(f"{pad}return Py.Ctl.brk {ctl}")
            elif isinstance(s, ast.While):
                raise Missing("nested / non-top-level loop")
            else:
                raise Missing(f"statement {type(s).__name__}")
        return out

    def translate(self):
        cfg, fn = self.cfg, self.fn
        name = cfg["name"]
        body = [s for s in fn.body if not (isinstance(s, ast.Expr) and isinstance(s.value, ast.Constant))]
        loops = [i for i, s in enumerate(body) if isinstance(s, ast.While)]
        if len(loops) != 1:
            raise Missing(f"{len(loops)} top-level loops")
        li = loops[0]
        loop = body[li]
        if not (isinstance(loop.test, ast.Constant) and loop.test.value in (True, 1)) or loop.orelse:
            raise Missing("loop is not `while True:` / `while 1:`")
        pre = self.stmts(body[:li], 1, None)
        # loop-carried state: everything defined before the loop (parameters and locals), in a fixed order
        state = [n for n in self.types]
        # variables first assigned inside the loop need a type: translate the body once to discover them
        carried_types = dict(self.types)
        body_lines = self.stmts(loop.body, 1, "(" + ", ".join(lname(n) for n in state) + ")")
        stuple = "(" + ", ".join(lname(n) for n in state) + ")"
        stype = "(" + " × ".join(carried_types[n] for n in state) + ")" if len(state) > 1 else carried_types[state[0]]
        self.types = dict(carried_types)
        # the code after the loop sees the state the loop was left with
        post = self.stmts(body[li + 1:], 1, None)
        params = " ".join(f"({lname(n)} : {t})" for n, t in cfg["params"])
        sargs = " ".join(f"({lname(n)} : {carried_types[n]})" for n in state)
        where = f"{cfg['src']} {cfg['qual']} (line {fn.lineno})"
        L = []
        L.append(f"/-- {where}: one iteration of the loop -/")
        L.append(f"def {name}_body {sargs} : Except Exc (Py.Ctl {stype} {cfg['ret']}) := do")
        for n in state:
            L.append(f"  let mut {lname(n)} := {lname(n)}")
        L += body_lines
        L.append(f"  return Py.Ctl.cont {stuple}")
        L.append("")
        L.append(f"/-- {where}: the code after the loop -/")
        L.append(f"def {name}_after {sargs} : Except Exc {cfg['ret']} := do")
        for n in state:
            L.append(f"  let mut {lname(n)} := {lname(n)}")
        L += post or ["  throw Exc.other"]
        L.append("")
        L.append(f"/-- {where}: the loop, with fuel -/")
        L.append(f"def {name}_loop : Nat → {stype} → Except Exc {cfg['ret']}")
        L.append("  | 0, _ => .error .other")
        L.append(f"  | fuel + 1, {stuple} =>")
        L.append(f"    match {name}_body {' '.join(lname(n) for n in state)} with")
        L.append("    | .error e => .error e")
        L.append("    | .ok (.ret r) => .ok r")
        L.append(f"    | .ok (.brk {stuple}) => {name}_after {' '.join(lname(n) for n in state)}")
        L.append(f"    | .ok (.cont st) => {name}_loop fuel st")
        L.append("")
        L.append(f"/-- {where} -/")
        L.append(f"def {name} {params} : Except Exc {cfg['ret']} := do")
        for n, _ in cfg["params"]:
            L.append(f"  let mut {lname(n)} := {lname(n)}")
        L += pre
        L.append(f"  {name}_loop {cfg['fuel']} {stuple}")
        return "\n".join(L)


    def translate_straight(self):
        cfg, fn = self.cfg, self.fn
        for a, t in cfg["attrs"]:
            self.types["self." + a] = t
        fbody = list(fn.body)
        if cfg.get("prefix"):
            k = next((i for i, st in enumerate(fbody) if isinstance(st, (ast.While, ast.For))), None)
            if k is None:
                raise Missing("no loop to stop at")
            fbody = fbody[:k]
            if any(isinstance(n, (ast.While, ast.For, ast.Return)) for st in fbody for n in ast.walk(st)):
                raise Missing("loop / return before the top-level loop")
        elif any(isinstance(n, (ast.While, ast.For)) for n in ast.walk(fn)):
            raise Missing("loop in a function configured as loop-free")
        self.ret_suffix = ["self_" + a.lstrip("_") for a in cfg["writes"]]
        body = self.stmts(fbody, 1, None)
        LT = lambda t: "Option Int" if t == "OptInt" else t  # noqa: E731
        params = " ".join([f"(self_{a.lstrip('_')} : {LT(t)})" for a, t in cfg["attrs"]] + [f"({lname(n)} : {t})" for n, t in cfg["params"]]
                          + ([f"({cfg['clock_param']} : Int)"] if cfg.get("clock_param") else []))
        rtype = "(" + " × ".join([cfg["ret"]] + [LT(dict(cfg["attrs"])[a]) for a in cfg["writes"]]) + ")" if cfg["writes"] else cfg["ret"]
        where = f"{cfg['src']} {cfg['qual']} (line {fn.lineno})"
        L = [f"/-- {where}; attributes of `self` read: {', '.join(a for a, _ in cfg['attrs'])}; returned with the result: {', '.join(cfg['writes']) or 'none'} -/",
             f"def {cfg['name']} {params} : Except Exc {rtype} := do"]
        for a, _ in cfg["attrs"]:
            L.append(f"  let mut self_{a.lstrip('_')} := self_{a.lstrip('_')}")
        for n, _ in cfg["params"]:
            L.append(f"  let mut {lname(n)} := {lname(n)}")
        L += body
        if cfg.get("prefix"):
            rl = cfg["ret_local"]
            if self.types.get(rl) != cfg["ret"]:
                raise Missing(f"local {rl} of type {self.types.get(rl)}")
            L.append("  return (" + ", ".join([lname(rl)] + self.ret_suffix) + ")")
        elif cfg.get("falls_off"):
            L.append("  return ()")
        elif not (fn.body and isinstance(fn.body[-1], ast.Return)) and not any(isinstance(n, ast.Return) for n in ast.walk(fn.body[-1])):
            raise Missing("function may fall off its end")
        return "\n".join(L)


class CbTr(Tr):
    """callbacks of the helpers (see CALLBACKS)"""

    def is_ud(self, e):
        return (isinstance(e, ast.Name) and e.id == "userdata") or \
            (isinstance(e, ast.Attribute) and e.attr == "_userdata" and isinstance(e.value, ast.Name) and e.value.id == "client")

    def ud_key(self, e):
        if isinstance(e, ast.Subscript) and self.is_ud(e.value) and isinstance(e.slice, ast.Constant) and isinstance(e.slice.value, str):
            k = e.slice.value
            if k not in self.cfg.get("dict_fields", {}):
                raise Missing(f"userdata[{k!r}] is not modelled")
            return k
        return None

    def client_call(self, e, name):
        return isinstance(e, ast.Call) and isinstance(e.func, ast.Attribute) and e.func.attr == name \
            and isinstance(e.func.value, ast.Name) and e.func.value.id == "client"

    def expr(self, e):
        k = self.ud_key(e)
        if k is not None:
            return f"userdata.{k}", self.cfg["dict_fields"][k]
        if self.is_ud(e):
            return "userdata", self.cfg["state"]
        if isinstance(e, ast.Attribute) and isinstance(e.value, ast.Name) and e.value.id in self.cfg.get("obj_fields", {}):
            f = self.cfg["obj_fields"][e.value.id]
            if e.attr not in f:
                raise Missing(f"{e.value.id}.{e.attr} is not modelled")
            return f"{e.value.id}.{e.attr}", f[e.attr]
        if isinstance(e, ast.Compare) and len(e.ops) == 1 and isinstance(e.ops[0], (ast.Is, ast.IsNot)) \
                and isinstance(e.comparators[0], ast.Constant) and e.comparators[0].value is None:
            v, t = self.expr(e.left)
            if t != "PyMsgs":
                raise Missing(f"`is None` on a {t}")
            return (f"({v}).isNone" if isinstance(e.ops[0], ast.Is) else f"(!({v}).isNone)"), "Bool"
        if isinstance(e, ast.Call) and isinstance(e.func, ast.Name) and e.func.id == "isinstance" and len(e.args) == 2:
            v, t = self.expr(e.args[0])
            cls = e.args[1]
            names = tuple(x.id for x in cls.elts) if isinstance(cls, ast.Tuple) and all(isinstance(x, ast.Name) for x in cls.elts) \
                else (cls.id,) if isinstance(cls, ast.Name) else None
            if t == "PyPubMsg" and names == ("dict",):
                return f"({v}.form == Py.PyForm.dict)", "Bool"
            if t == "PyPubMsg" and names is not None and set(names) == {"tuple", "list"}:
                return f"({v}.form == Py.PyForm.seq)", "Bool"
            if t == "PyTopics" and names == ("list",):
                return f"({v}).isList", "Bool"
            raise Missing(f"isinstance({t}, {names})")
        if isinstance(e, ast.Call) and isinstance(e.func, ast.Name) and e.func.id == "len" and len(e.args) == 1 and self.is_ud(e.args[0]):
            if not self.cfg["state"].startswith("List "):
                raise Missing("len() of a userdata that is not a sequence")
            return "((userdata).length : Int)", "Int"
        return super().expr(e)

    def eff(self, pad, text):
        return f"{pad}effs := effs ++ {text}"

    def stmts(self, body, ind, ctl):
        out = []
        pad = "  " * ind
        for s in body:
            v = s.value if isinstance(s, ast.Expr) else None
            if isinstance(s, ast.Return) and s.value is None:
                out.append(f"{pad}return (userdata, effs)")
            elif isinstance(s, ast.Return):
                raise Missing("callback returns a value")
            elif isinstance(s, ast.Assign) and len(s.targets) == 1 and self.ud_key(s.targets[0]) is not None:
                k = self.ud_key(s.targets[0])
                ft = self.cfg["dict_fields"][k]
                val, t = self.expr(s.value)
                if ft == "PyMsgs" and t == "PyInMsg":
                    val, t = f"(Py.PyMsgs.one {val})", "PyMsgs"
                if t != ft:
                    raise Missing(f"userdata[{k!r}] assigned a {t}")
                out.append(f"{pad}userdata := {{ userdata with {k} := {val} }}")
            elif isinstance(s, ast.Assign) and len(s.targets) == 1 and isinstance(s.targets[0], ast.Name) and isinstance(s.value, ast.Call) \
                    and isinstance(s.value.func, ast.Attribute) and s.value.func.attr == "popleft" and self.is_ud(s.value.func.value) and not s.value.args:
                if not self.cfg["state"].startswith("List "):
                    raise Missing("popleft() on a userdata that is not a deque")
                n = s.targets[0].id
                self.types[n] = self.cfg["state"][5:]
                out.append(f"{pad}let ({lname(n)}, userdata') ← Py.popleft userdata")
                out.append(f"{pad}userdata := userdata'")
            elif v is not None and isinstance(v, ast.Call) and isinstance(v.func, ast.Attribute) and v.func.attr == "append" \
                    and self.ud_key(v.func.value) is not None and len(v.args) == 1:
                k = self.ud_key(v.func.value)
                if self.cfg["dict_fields"][k] != "PyMsgs":
                    raise Missing("append to a userdata entry that is not the message list")
                a, t = self.expr(v.args[0])
                if t != "PyInMsg":
                    raise Missing(f"append of a {t}")
                out.append(f"{pad}userdata := {{ userdata with {k} := (← Py.PyMsgs.append userdata.{k} {a}) }}")
            elif v is not None and self.client_call(v, "disconnect") and not v.args and not v.keywords:
                out.append(self.eff(pad, "[Py.HEff.disconnect]"))
            elif v is not None and self.client_call(v, "publish") and not v.keywords and len(v.args) == 1 and isinstance(v.args[0], ast.Starred):
                a, t = self.expr(v.args[0].value)
                if t != "PyPubMsg":
                    raise Missing("publish(*x) of a non-message")
                out.append(self.eff(pad, f"[Py.HEff.publishArgs {a}]"))
            elif v is not None and self.client_call(v, "publish") and not v.args and len(v.keywords) == 1 and v.keywords[0].arg is None:
                a, t = self.expr(v.keywords[0].value)
                if t != "PyPubMsg":
                    raise Missing("publish(**x) of a non-message")
                out.append(self.eff(pad, f"[Py.HEff.publishKw {a}]"))
            elif v is not None and self.client_call(v, "subscribe") and not v.keywords and len(v.args) == 2:
                a, ta = self.expr(v.args[0])
                q, tq = self.expr(v.args[1])
                if ta != "PyTopics" or tq != "Int":
                    raise Missing(f"subscribe({ta}, {tq})")
                out.append(self.eff(pad, f"[Py.HEff.subscribe {a} {q}]"))
            elif isinstance(s, ast.For) and isinstance(s.target, ast.Name) and not s.orelse and len(s.body) == 1 \
                    and isinstance(s.body[0], ast.Expr) and self.client_call(s.body[0].value, "subscribe") \
                    and len(s.body[0].value.args) == 2 and not s.body[0].value.keywords \
                    and isinstance(s.body[0].value.args[0], ast.Name) and s.body[0].value.args[0].id == s.target.id:
                it, tit = self.expr(s.iter)
                if tit != "PyTopics":
                    raise Missing(f"for over a {tit}")
                q, tq = self.expr(s.body[0].value.args[1])
                if tq != "Int":
                    raise Missing("subscribe qos")
                out.append(self.eff(pad, f"(({it}).items.map (fun {lname(s.target.id)} => Py.HEff.subscribe (Py.PyTopics.single {lname(s.target.id)}) {q}))"))
            elif v is not None and isinstance(v, ast.Call) and isinstance(v.func, ast.Name) and v.func.id in self.cfg.get("calls", {}) \
                    and len(v.args) == 1 and isinstance(v.args[0], ast.Name) and v.args[0].id == "client" and not v.keywords:
                out.append(f"{pad}let (userdata', effs') ← {self.cfg['calls'][v.func.id]} userdata")
                out.append(f"{pad}userdata := userdata'")
                out.append(f"{pad}effs := effs ++ effs'")
            elif isinstance(s, ast.If):
                out.append(f"{pad}if {self.test(s.test)} then")
                out += self.stmts(s.body, ind + 1, ctl) or [f"{pad}  pure ()"]
                if s.orelse:
                    out.append(f"{pad}else")
                    out += self.stmts(s.orelse, ind + 1, ctl)
            elif isinstance(s, (ast.For, ast.While, ast.Return)):
                raise Missing(f"statement {type(s).__name__} in a callback")
            else:
                out += Tr.stmts(self, [s], ind, ctl)
        return out

    def translate_callback(self):
        cfg, fn = self.cfg, self.fn
        params = " ".join([f"(userdata : {cfg['state']})"] + [f"({lname(n)} : {t})" for n, t in cfg["params"]])
        where = f"{cfg['src']} {cfg['qual']} (line {fn.lineno})"
        L = [f"/-- {where}: returns the new userdata and the calls made on the client, in order -/",
             f"def {cfg['name']} {params} : Except Exc ({cfg['state']} × List Py.HEff) := do",
             "  let mut userdata := userdata",
             "  let mut effs : List Py.HEff := []"]
        L += self.stmts(fn.body, 1, None)
        L.append("  return (userdata, effs)")
        return "\n".join(L)


class EffTr(Tr):
    """methods translated to their sequence of effects (see EFFECTS)"""

    def __init__(self, cfg, fn, consts=None):
        super().__init__(cfg, fn, consts)
        self.clobbered = set()
        self.epoch = 0              # number of unconditional calls so far that may change any attribute
        self.depth = 0              # nesting depth of if / try
        self.extra = []             # (parameter name, type) of the attributes re-read after such a call
        for a, t in cfg["attrs"]:
            self.types["self." + a] = t

    def is_self_attr(self, e, name=None):
        return isinstance(e, ast.Attribute) and isinstance(e.value, ast.Name) and e.value.id == "self" and (name is None or e.attr == name)

    def expr(self, e):
        if isinstance(e, ast.Compare) and len(e.ops) == 1 and isinstance(e.ops[0], (ast.Is, ast.IsNot)) \
                and isinstance(e.comparators[0], ast.Constant) and e.comparators[0].value is None and self.is_self_attr(e.left) \
                and e.left.attr in self.cfg.get("none_tests", {}):
            if e.left.attr in self.clobbered or "*" in self.clobbered:
                raise Missing(f"self.{e.left.attr} tested after a call that may change it")
            v = "self_" + self.cfg["none_tests"][e.left.attr]
            return (v if isinstance(e.ops[0], ast.IsNot) else f"(!{v})"), "Bool"
        if isinstance(e, ast.Compare) and len(e.ops) == 1 and isinstance(e.ops[0], (ast.Is, ast.IsNot)):
            a, ta = self.expr(e.left) if not (isinstance(e.left, ast.Constant) and e.left.value is None) else ("(0 : Int)", "Ref")
            r = e.comparators[0]
            b, tb = self.expr(r) if not (isinstance(r, ast.Constant) and r.value is None) else ("(0 : Int)", "Ref")
            if ta != "Ref" or tb != "Ref":
                raise Missing(f"`is` between {ta} and {tb}")
            return (f"({a} == {b})" if isinstance(e.ops[0], ast.Is) else f"({a} != {b})"), "Bool"
        if isinstance(e, ast.Call) and self.is_self_attr(e.func) and e.func.attr in self.cfg.get("calls", {}) \
                and self.cfg["calls"][e.func.attr].get("pure") and not e.args and not e.keywords:
            pn = "ret_" + e.func.attr.lstrip("_")
            t = self.cfg["calls"][e.func.attr]["returns"]
            t = "Int" if t is True else t
            if any(x[0] == pn for x in self.extra):
                raise Missing(f"self.{e.func.attr}() called twice")
            self.extra.append((pn, t))
            return pn, t
        if isinstance(e, ast.Call) and isinstance(e.func, ast.Name) and e.func.id == "len" and len(e.args) == 1 and self.is_self_attr(e.args[0]) \
                and f"self.{e.args[0].attr}.len" in self.types:
            if e.args[0].attr in self.clobbered or "*" in self.clobbered or self.epoch:
                raise Missing(f"len(self.{e.args[0].attr}) after a call that may change it")
            return f"self_{e.args[0].attr.lstrip('_')}_len", "Int"
        if isinstance(e, ast.BoolOp) and isinstance(e.op, ast.Or) and len(e.values) == 2:
            a, ta = self.expr(e.values[0])
            if ta == "Ref":
                b, tb = self.expr(e.values[1])
                if tb != "Ref":
                    raise Missing("`or` of a reference and something else")
                return f"(if {a} != 0 then {a} else {b})", "Ref"          # `x or y` yields x when x is not None
        if isinstance(e, ast.Subscript) and self.is_self_attr(e.value) and isinstance(e.slice, ast.Constant) and isinstance(e.slice.value, str) \
                and f"self.{e.value.attr}.{e.slice.value}" in self.types:
            if e.value.attr in self.clobbered or "*" in self.clobbered or self.epoch:
                raise Missing(f"self.{e.value.attr}[...] read after a call that may change it")
            return f"self_{e.value.attr.lstrip('_')}_{e.slice.value}", self.types[f"self.{e.value.attr}.{e.slice.value}"]
        if self.is_self_attr(e) and ("self." + e.attr) in self.types:
            if e.attr in self.clobbered or "*" in self.clobbered:
                raise Missing(f"self.{e.attr} read after a call or assignment that may change it")
            t = self.types["self." + e.attr]
            if self.epoch:
                n = f"self_{e.attr.lstrip('_')}_{self.epoch}"
                if (n, t) not in self.extra:
                    self.extra.append((n, t))
                return n, t
            return "self_" + e.attr.lstrip("_"), t
        if isinstance(e, ast.Attribute) and isinstance(e.value, ast.Name) and e.value.id not in ("self", "MQTTErrorCode") and e.value.id not in self.types:
            # a member of a module-level enum class: its integer value (`.value` of a plain Enum)
            import importlib
            try:
                mod = importlib.import_module("paho.mqtt." + self.cfg["src"][:-3])
                m = getattr(getattr(mod, e.value.id), e.attr)
                v = m.value if hasattr(m, "value") else m
            except Exception:  # noqa: BLE001
                raise Missing(f"cannot resolve {e.value.id}.{e.attr}")
            if isinstance(v, bool) or not isinstance(v, int):
                raise Missing(f"{e.value.id}.{e.attr} is not an integer constant")
            n = f"{e.value.id}_{e.attr}"
            self.consts[n] = int(v)
            return f"c_{n}", "Int"
        return super().expr(e)

    def assigned_all(self, stmts):
        names = set()
        for s in stmts:
            if isinstance(s, ast.Assign) and len(s.targets) == 1 and isinstance(s.targets[0], ast.Name):
                names.add(s.targets[0].id)
            elif isinstance(s, ast.If):
                names |= self.assigned_all(s.body) & self.assigned_all(s.orelse)
        return names

    def call_eff(self, pad, v):
        name = v.func.attr
        c = self.cfg["calls"][name]
        args = []
        if c.get("args") != "opaque" and len(v.args) != c.get("args", 0):
            raise Missing(f"positional arguments in self.{name}()")
        for a_ in ([] if c.get("args") == "opaque" else v.args):
            a, t = self.expr(a_)
            if t not in ("Int", "Ref"):
                raise Missing(f"positional argument of type {t}")
            args.append(a)
        kw = {k.arg: k.value for k in v.keywords}
        if sorted(kw) != sorted(c.get("kwargs", [])):
            raise Missing(f"keyword arguments of self.{name}(): {sorted(kw)}")
        for k in c.get("kwargs", []):
            a, t = self.expr(kw[k])
            if t == "Bool":
                a = f"(if {a} then 1 else 0)"
            elif t != "Int":
                raise Missing(f"argument {k} of type {t}")
            args.append(a)
        if c["clobbers"] == "*" and self.depth == 0 and not self.clobbered:
            self.epoch += 1         # unconditional: what is read from here on are the values after this call
        elif c["clobbers"] == "*":
            self.clobbered.add("*")
        else:
            self.clobbered |= set(c["clobbers"])
        return f'{pad}effs := effs ++ [Py.MEff.call "{name}" [{", ".join(args)}]]'

    def is_call(self, v):
        return isinstance(v, ast.Call) and self.is_self_attr(v.func) and v.func.attr in self.cfg["calls"]

    def truth(self, e):
        """Python truthiness of an expression of type Bool / Fn (installed?) / Int / Ref (not None)"""
        if isinstance(e, ast.UnaryOp) and isinstance(e.op, ast.Not):
            return f"(!{self.truth(e.operand)})"
        if isinstance(e, ast.BoolOp):
            return "(" + (" && " if isinstance(e.op, ast.And) else " || ").join(self.truth(x) for x in e.values) + ")"
        v, t = self.expr(e)
        if t in ("Int", "Ref"):
            return f"({v} != 0)"
        if t in ("Bool", "Fn"):
            return v
        raise Missing(f"truth value of a {t}")

    def test(self, e):
        return self.truth(e)

    def stmts(self, body, ind, ctl):
        out = []
        pad = "  " * ind
        for s in body:
            v = s.value if isinstance(s, ast.Expr) else None
            if isinstance(s, ast.Return) and s.value is None:
                if self.cfg.get("ret"):
                    raise Missing("bare return in a method that returns a value")
                out.append(f"{pad}return effs")
            elif isinstance(s, ast.Return) and self.cfg.get("ret") == "Int" and self.is_call(s.value) \
                    and self.cfg["calls"][s.value.func.attr].get("returns"):
                pn = "ret_" + s.value.func.attr.lstrip("_")
                if any(x[0] == pn for x in self.extra):
                    raise Missing(f"result of self.{s.value.func.attr}() bound twice")
                out.append(self.call_eff(pad, s.value))
                self.extra.append((pn, "Int"))
                out.append(f"{pad}ret_val := {pn}" if getattr(self, "in_try_ret", False) else f"{pad}return ({pn}, effs)")
            elif isinstance(s, ast.Return) and getattr(self, "in_try_ret", False):
                val, t = self.expr(s.value)
                if t != "Int":
                    raise Missing(f"returns a {t}")
                out.append(f"{pad}ret_val := {val}")
            elif isinstance(s, ast.Return) and self.cfg.get("ret") in ("Int", "Bool"):
                val, t = self.expr(s.value)
                if t != self.cfg["ret"]:
                    raise Missing(f"returns a {t}")
                out.append(f"{pad}return ({val}, effs)")
            elif isinstance(s, ast.Assign) and len(s.targets) == 1 and isinstance(s.targets[0], ast.Name) and isinstance(s.value, ast.Call) \
                    and isinstance(s.value.func, ast.Name) and s.value.func.id == "time_func" and not s.value.args:
                if s.targets[0].id != self.cfg["clock"] or s.targets[0].id in self.types:
                    raise Missing("time_func() read more than once / into another name")
                self.types[s.targets[0].id] = "Int"          # the parameter
            elif isinstance(s, ast.Assign) and len(s.targets) == 1 and self.is_self_attr(s.targets[0]) and not (
                    isinstance(s.value, ast.Call) and isinstance(s.value.func, ast.Name) and s.value.func.id == "time_func"):
                a = s.targets[0].attr
                if isinstance(s.value, ast.Constant) and s.value.value is None and self.types.get("self." + a) == "Ref":
                    val, t = "(0 : Int)", "Int"
                else:
                    val, t = self.expr(s.value)
                if t == "Bool":
                    val = f"(if {val} then 1 else 0)"
                elif t != "Int":
                    raise Missing(f"self.{a} assigned a {t}")
                out.append(f'{pad}effs := effs ++ [Py.MEff.setInt "{a}" {val}]')
                self.clobbered.add(a)
            elif v is not None and isinstance(v, ast.Call) and self.is_self_attr(v.func) and v.func.attr in self.cfg.get("ignore", []):
                pass
            elif isinstance(s, ast.Assign) and len(s.targets) == 1 and isinstance(s.targets[0], ast.Name) and self.is_call(s.value) \
                    and self.cfg["calls"][s.value.func.attr].get("returns"):
                n = s.targets[0].id
                pn = "ret_" + s.value.func.attr.lstrip("_")
                if n in self.types or any(x[0] == pn for x in self.extra):
                    raise Missing(f"result of self.{s.value.func.attr}() bound twice")
                out.append(self.call_eff(pad, s.value))
                self.extra.append((pn, "Int"))
                self.types[n] = "Int"
                out.append(f"{pad}let mut {lname(n)} : Int := {pn}")
            elif isinstance(s, ast.Assign) and len(s.targets) == 1 and self.is_self_attr(s.targets[0]) and isinstance(s.value, ast.Call) \
                    and isinstance(s.value.func, ast.Name) and s.value.func.id == "time_func" and not s.value.args:
                # (every reading of the clock within one call is the same instant of the virtual clock)
                out.append(f'{pad}effs := effs ++ [Py.MEff.setInt "{s.targets[0].attr}" {self.cfg["clock"]}]')
                self.clobbered.add(s.targets[0].attr)
            elif v is not None and self.is_call(v):
                if self.cfg["calls"][v.func.attr].get("raises"):
                    raise Missing(f"self.{v.func.attr}() outside try/except")
                out.append(self.call_eff(pad, v))
            elif isinstance(s, ast.Raise) and s.exc is None:
                out.append(f"{pad}throw Exc.other")          # re-raises the user's exception
            elif isinstance(s, ast.Try) and not s.handlers and not s.orelse and s.finalbody \
                    and any(isinstance(n, ast.Return) for st in s.body for n in ast.walk(st)):
                # every path through the body must end in `return`: the value goes to a local, the finally block runs, then it
                # is returned (the finally block itself must not return)
                def all_return(body):
                    if not body:
                        return False
                    last = body[-1]
                    if isinstance(last, ast.Return):
                        return True
                    return isinstance(last, ast.If) and all_return(last.body) and all_return(last.orelse)
                if not all_return(s.body) or any(isinstance(n, ast.Return) for st in s.finalbody for n in ast.walk(st)) or self.cfg.get("ret") != "Int":
                    raise Missing("try/finally: not every path of the body returns, or the finally block returns")
                out.append(f"{pad}let mut ret_val : Int := 0")
                self.in_try_ret = True
                out += self.stmts(s.body, ind, ctl)
                self.in_try_ret = False
                out += self.stmts(s.finalbody, ind, ctl)
                out.append(f"{pad}return (ret_val, effs)")
            elif isinstance(s, ast.Try) and not s.handlers and not s.orelse and s.finalbody:
                out += self.stmts(s.body, ind, ctl)
                out += self.stmts(s.finalbody, ind, ctl)
            elif v is not None and isinstance(v, ast.Call) and isinstance(v.func, ast.Attribute) and v.func.attr == "close" and not v.args \
                    and isinstance(v.func.value, ast.Name) and self.types.get(v.func.value.id) == "Ref":
                out.append(f'{pad}effs := effs ++ [Py.MEff.call "close" [{lname(v.func.value.id)}]]')
            elif isinstance(s, ast.Try) and len(s.body) == 1 and isinstance(s.body[0], ast.Expr) and isinstance(s.body[0].value, ast.Call) \
                    and isinstance(s.body[0].value.func, ast.Name) and s.body[0].value.func.id in self.cfg.get("fn_calls", {}) \
                    and self.types.get(s.body[0].value.func.id) == "Fn" \
                    and len(s.handlers) == 1 and isinstance(s.handlers[0].type, ast.Name) and s.handlers[0].type.id == "Exception" and not s.finalbody \
                    and not s.orelse:
                call = s.body[0].value
                # the user's callback is handed (self, userdata, socket): the socket is the argument of the effect
                if len(call.args) != 3 or call.keywords:
                    raise Missing("arguments of the callback")
                sk, tsk = self.expr(call.args[2])
                if tsk != "Ref":
                    raise Missing("third argument of the callback is not the socket")
                out.append(f'{pad}effs := effs ++ [Py.MEff.call "{call.func.id}" [{sk}]]')
                # the user's code may change any attribute - except those the configuration declares it leaves alone (an
                # assumption of the translation, quoted in the generated docstring)
                self.clobbered |= {a for a, _ in self.cfg["attrs"]} - set(self.cfg.get("fn_keeps", []))
                self.depth += 1
                out.append(f"{pad}if {self.cfg['fn_calls'][call.func.id]} then")
                out += self.stmts(s.handlers[0].body, ind + 1, ctl) or [f"{pad}  pure ()"]
                self.depth -= 1
            elif isinstance(s, ast.Try) and len(s.body) == 1 and isinstance(s.body[0], ast.Expr) and self.is_call(s.body[0].value) \
                    and len(s.handlers) == 1 and isinstance(s.handlers[0].type, ast.Name) and s.handlers[0].type.id == "Exception" \
                    and s.handlers[0].name is None and not s.finalbody:
                c = self.cfg["calls"][s.body[0].value.func.attr]
                if not c.get("raises"):
                    raise Missing("try around a call not declared as possibly raising")
                self.depth += 1
                out.append(self.call_eff(pad, s.body[0].value))
                self.depth -= 1
                saved = set(self.clobbered)
                self.depth += 1
                out.append(f"{pad}if {c['raises']} then")
                out += self.stmts(s.handlers[0].body, ind + 1, ctl) or [f"{pad}  pure ()"]
                c1 = set(self.clobbered)
                self.clobbered = set(saved)
                out.append(f"{pad}else")
                out += self.stmts(s.orelse, ind + 1, ctl) or [f"{pad}  pure ()"]
                self.depth -= 1
                self.clobbered |= c1
            elif isinstance(s, ast.If):
                # a local assigned on every path through the `if` is declared before it (value 0 until then; a local assigned
                # on some paths only stays undeclared, so that a later read is reported and never defaulted)
                for n in sorted(self.assigned_all(s.body) & self.assigned_all(s.orelse)):
                    if n not in self.types:
                        self.types[n] = "Int"
                        out.append(f"{pad}let mut {lname(n)} : Int := 0")
                out.append(f"{pad}if {self.test(s.test)} then")
                saved = set(self.clobbered)
                self.depth += 1
                out += self.stmts(s.body, ind + 1, ctl) or [f"{pad}  pure ()"]
                c1 = set(self.clobbered)
                self.clobbered = set(saved)
                if s.orelse:
                    out.append(f"{pad}else")
                    out += self.stmts(s.orelse, ind + 1, ctl)
                self.depth -= 1
                self.clobbered |= c1
            elif isinstance(s, (ast.For, ast.While, ast.Return, ast.Try)):
                raise Missing(f"statement {type(s).__name__} outside the subset")
            else:
                out += Tr.stmts(self, [s], ind, ctl)
        return out

    def translate_effects(self):
        cfg, fn = self.cfg, self.fn
        body = self.stmts(fn.body, 1, None)
        ps = [f"(self_{a.lstrip('_').replace('.', '_')} : {'Bool' if t == 'Fn' else t})" for a, t in cfg["attrs"]] + [f"(self_{v} : Bool)" for v in cfg.get("none_tests", {}).values()] \
            + [f"({cfg['clock']} : Int)"] + [f"({c['raises']} : Bool)" for c in cfg["calls"].values() if c.get("raises")] \
            + [f"({v} : Bool)" for v in cfg.get("fn_calls", {}).values()] \
            + [f"({lname(n)} : {t})" for n, t in cfg["params"]] + [f"({n} : {t})" for n, t in self.extra]
        where = f"{cfg['src']} {cfg['qual']} (line {fn.lineno})"
        rt = f"({cfg['ret']} × List Py.MEff)" if cfg.get("ret") else "(List Py.MEff)"
        L = [f"/-- {where}: " + ("its result and " if cfg.get("ret") else "") + "the calls and attribute assignments it makes, in execution order"
             + ("; parameters `self_<attr>_<k>`: the attribute's value after the k-th unconditional call" if self.extra else "")
             + ("; ASSUMED: the user's callback does not assign " + ", ".join(cfg["fn_keeps"]) if cfg.get("fn_keeps") else "") + " -/",
             f"def {cfg['name']} {' '.join(ps)} : Except Exc {rt} := do",
             "  let mut effs : List Py.MEff := []"]
        L += [f"  let mut {lname(n)} := {lname(n)}" for n, _ in cfg["params"]]
        L += body
        if cfg.get("ret"):
            last = fn.body[-1] if fn.body else None
            if not (isinstance(last, ast.Return) or (isinstance(last, ast.Try) and last.finalbody and not last.handlers
                                                      and any(isinstance(n, ast.Return) for st in last.body for n in ast.walk(st)))):
                raise Missing("function may fall off its end")
        else:
            L.append("  return effs")
        return "\n".join(L)


def translate_recloop(tr):
    """a method whose body is `[with self._x_mutex:] <straight statements>; for m in self.<table>.values(): <body>`"""
    cfg, fn = tr.cfg, tr.fn
    for a, t in cfg["attrs"]:
        tr.types["self." + a] = t
    body = [s for s in fn.body if not (isinstance(s, ast.Expr) and isinstance(s.value, ast.Constant))]
    while len(body) == 1 and isinstance(body[0], ast.With) and len(body[0].items) == 1 \
            and isinstance(body[0].items[0].context_expr, ast.Attribute) and body[0].items[0].context_expr.attr.endswith("_mutex"):
        body = body[0].body
    loops = [i for i, s in enumerate(body) if isinstance(s, ast.For)]
    if len(loops) != 1 or loops[0] != len(body) - 1:
        raise Missing("expected exactly one for-loop, as the last statement")
    loop = body[-1]
    lc = cfg["loop"]
    it = loop.iter
    if not (isinstance(loop.target, ast.Name) and loop.target.id == lc["var"] and not loop.orelse
            and isinstance(it, ast.Call) and isinstance(it.func, ast.Attribute) and it.func.attr == "values" and not it.args
            and isinstance(it.func.value, ast.Attribute) and it.func.value.attr == lc["over"]
            and isinstance(it.func.value.value, ast.Name) and it.func.value.value.id == "self"):
        raise Missing(f"loop is not `for {lc['var']} in self.{lc['over']}.values():`")
    if any(isinstance(n, (ast.Break, ast.Continue, ast.Return, ast.While, ast.For)) for s in loop.body for n in ast.walk(s)):
        raise Missing("break / continue / return / nested loop in the record loop")
    pre = tr.stmts(body[:-1], 1, None)
    tr.rec = (lc["var"], dict(lc["fields"]))
    lbody = tr.stmts(loop.body, 1, None)
    tr.rec = None
    sa = lambda a: "self_" + a.lstrip("_")  # noqa: E731
    atypes = dict(cfg["attrs"])
    ro = [a for a, _ in cfg["attrs"] if a not in cfg["writes"]]
    w = cfg["writes"]
    rec = lc["record"]
    name = cfg["name"]
    where = f"{cfg['src']} {cfg['qual']} (line {fn.lineno})"
    wt = " × ".join(atypes[a] for a in w)
    wtuple = ", ".join(sa(a) for a in w)
    L = [f"/-- the fields of an MQTTMessage that {cfg['qual']} reads or writes -/",
         f"structure {rec} where"]
    L += [f"  {f} : {t}" for f, t in lc["fields"]]
    L += ["  deriving DecidableEq, Repr", ""]
    allp = " ".join(f"({sa(a)} : {t})" for a, t in cfg["attrs"])
    L.append(f"/-- {where}: the body of the loop over self.{lc['over']}.values() -/")
    L.append(f"def {name}_body {allp} ({lc['var']} : {rec}) : Except Exc (({wt}) × {rec}) := do")
    for a in w:
        L.append(f"  let mut {sa(a)} := {sa(a)}")
    L.append(f"  let mut {lc['var']} := {lc['var']}")
    L += lbody
    L.append(f"  return (({wtuple}), {lc['var']})")
    L.append("")
    rop = " ".join(f"({sa(a)} : {atypes[a]})" for a in ro)
    L.append(f"/-- {where}: the loop, over the records in dictionary order -/")
    L.append(f"def {name}_loop {rop} : ({wt}) → List {rec} → Except Exc (({wt}) × List {rec})")
    L.append("  | w, [] => .ok (w, [])")
    L.append(f"  | ({wtuple}), {lc['var']} :: rest => do")
    L.append(f"    let (w', m') ← {name}_body {' '.join(sa(a) for a, _ in cfg['attrs'])} {lc['var']}")
    L.append(f"    let (w'', rest') ← {name}_loop {' '.join(sa(a) for a in ro)} w' rest")
    L.append("    return (w'', m' :: rest')")
    L.append("")
    L.append(f"/-- {where}; returns the written attributes ({', '.join(w)}) and the records of self.{lc['over']} -/")
    L.append(f"def {name} {allp} ({lc['over'].lstrip('_')} : List {rec}) : Except Exc (({wt}) × List {rec}) := do")
    for a in w:
        L.append(f"  let mut {sa(a)} := {sa(a)}")
    L += pre
    L.append(f"  {name}_loop {' '.join(sa(a) for a in ro)} ({wtuple}) {lc['over'].lstrip('_')}")
    return "\n".join(L)


def find_func(tree, qual):
    body = tree.body
    node = None
    for p in qual.split("."):
        node = next((n for n in body if isinstance(n, (ast.FunctionDef, ast.ClassDef)) and n.name == p), None)
        if node is None:
            raise Missing(qual)
        body = node.body
    return node


def run(out):
    """called by extract.run(): returns {generated file name: Lean text}; reports untranslatable functions as missing anchors
    of the file they belong to (one file per consumer, so that a function that can no longer be translated breaks only
    the proofs that depend on it)"""
    texts = {}
    consts = {}
    for cfg, straight in [(c, False) for c in FUNCS] + [(c, True) for c in STRAIGHT] + [(c, c.get("straight", False)) for c in RECLOOP] \
            + [(c, True) for c in CALLBACKS] + [(c, True) for c in EFFECTS]:
        f = cfg["file"]
        texts.setdefault(f, [])
        try:
            tree = ast.parse(open(os.path.join(PKG, cfg["src"]), encoding="utf-8").read())
            fn = find_func(tree, cfg["qual"])
            tr = (CbTr if "state" in cfg else EffTr if "clock" in cfg else Tr)(cfg, fn, consts.setdefault(f, {}))
            if "clock" in cfg:
                texts[f].append(tr.translate_effects())
            elif "state" in cfg:
                texts[f].append(tr.translate_callback())
            elif "loop" in cfg:
                texts[f].append(translate_recloop(tr))
            else:
                texts[f].append(tr.translate_straight() if straight else tr.translate())
            out.report["anchors"]["fn:" + cfg["name"]] = {"value": "translated", "where": f"{cfg['src']} {cfg['qual']}"}
        except Missing as e:
            texts[f].append(f"-- MISSING translation {cfg['name']}: {e}")
            out.report["missing"].append({"name": "fn:" + cfg["name"], "why": f"not translatable: {e}", "file": f})
        except (OSError, SyntaxError) as e:
            out.report["missing"].append({"name": "fn:" + cfg["name"], "why": f"cannot parse: {e}", "file": f})
    return {f: ("-- GENERATED by /verif/py/py2lean.py from the working tree of /repo. Do not edit.\n"
                + ("import Paho.Model.PyHelpers\n" if f == "FnHelpers" else "import Paho.Model.Py\n") +
                "namespace Paho.Gen.Fn" + NS.get(f, "") + "\nopen Paho Paho.Py\n\n"
                + "".join(f"/-- module-level constant `{n}` of the live module -/\ndef c_{n} : Int := {v}\n\n" for n, v in sorted(consts.get(f, {}).items()))
                + "\n\n".join(t) + "\n\nend Paho.Gen.Fn" + NS.get(f, "") + "\n") for f, t in texts.items()}
