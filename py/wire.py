"""Independent MQTT 3.1 / 3.1.1 / 5.0 wire codec and RFC 6455 frame codec.

Written from the specifications; imports nothing from paho. Used (a) to generate
broker traffic and (b) as the strict decoder of everything the client writes
(property monitors). Packets are plain dicts.
"""
from __future__ import annotations

import struct

CONNECT, CONNACK, PUBLISH, PUBACK, PUBREC, PUBREL, PUBCOMP, SUBSCRIBE, SUBACK, \
    UNSUBSCRIBE, UNSUBACK, PINGREQ, PINGRESP, DISCONNECT, AUTH = range(1, 16)
WILL = 99
NAMES = {1: "CONNECT", 2: "CONNACK", 3: "PUBLISH", 4: "PUBACK", 5: "PUBREC", 6: "PUBREL",
         7: "PUBCOMP", 8: "SUBSCRIBE", 9: "SUBACK", 10: "UNSUBSCRIBE", 11: "UNSUBACK",
         12: "PINGREQ", 13: "PINGRESP", 14: "DISCONNECT", 15: "AUTH"}

VBI_MAX = 268435455


class Malformed(Exception):
    pass


# ---------------------------------------------------------------- primitives
def vbi_enc(n: int) -> bytes:
    if not 0 <= n <= VBI_MAX:
        raise ValueError(n)
    out = bytearray()
    while True:
        d = n & 0x7F
        n >>= 7
        if n:
            out.append(d | 0x80)
        else:
            out.append(d)
            return bytes(out)


def vbi_dec(b: bytes, pos: int = 0):
    """strict: <= 4 bytes, minimal encoding. returns (value, newpos)."""
    val = 0
    for i in range(4):
        if pos + i >= len(b):
            raise Malformed("vbi truncated")
        d = b[pos + i]
        val |= (d & 0x7F) << (7 * i)
        if not d & 0x80:
            if i > 0 and d == 0:
                raise Malformed("vbi not minimal")
            return val, pos + i + 1
    raise Malformed("vbi too long")


def u16(n: int) -> bytes:
    return struct.pack("!H", n)


def bin16(b: bytes) -> bytes:
    if len(b) > 65535:
        raise ValueError("too long")
    return u16(len(b)) + bytes(b)


def rd_u16(b, pos):
    if pos + 2 > len(b):
        raise Malformed("u16 truncated")
    return (b[pos] << 8) | b[pos + 1], pos + 2


def rd_bin(b, pos):
    n, pos = rd_u16(b, pos)
    if pos + n > len(b):
        raise Malformed("bin truncated")
    return bytes(b[pos:pos + n]), pos + n


def check_utf8(raw: bytes) -> str:
    try:
        s = raw.decode("utf-8")
    except UnicodeDecodeError as e:
        raise Malformed("bad utf8") from e
    for ch in s:
        o = ord(ch)
        if o == 0 or 0xD800 <= o <= 0xDFFF:
            raise Malformed("forbidden code point")
    return s


def rd_str(b, pos):
    raw, pos = rd_bin(b, pos)
    check_utf8(raw)
    return raw, pos      # kept as bytes; validity checked


# ---------------------------------------------------------------- v5 properties
# id -> (type, packets)   types: B H L V bin str pair      (MQTT 5.0 table 2-4)
BYTE, TWO, FOUR, VARINT, BIN, STR, PAIR = "B", "H", "L", "V", "bin", "str", "pair"
PROPS = {
    1: (BYTE, {PUBLISH, WILL}), 2: (FOUR, {PUBLISH, WILL}), 3: (STR, {PUBLISH, WILL}),
    8: (STR, {PUBLISH, WILL}), 9: (BIN, {PUBLISH, WILL}), 11: (VARINT, {PUBLISH, SUBSCRIBE}),
    17: (FOUR, {CONNECT, CONNACK, DISCONNECT}), 18: (STR, {CONNACK}), 19: (TWO, {CONNACK}),
    21: (STR, {CONNECT, CONNACK, AUTH}), 22: (BIN, {CONNECT, CONNACK, AUTH}),
    23: (BYTE, {CONNECT}), 24: (FOUR, {WILL}), 25: (BYTE, {CONNECT}), 26: (STR, {CONNACK}),
    28: (STR, {CONNACK, DISCONNECT}),
    31: (STR, {CONNACK, PUBACK, PUBREC, PUBREL, PUBCOMP, SUBACK, UNSUBACK, DISCONNECT, AUTH}),
    33: (TWO, {CONNECT, CONNACK}), 34: (TWO, {CONNECT, CONNACK}), 35: (TWO, {PUBLISH}),
    36: (BYTE, {CONNACK}), 37: (BYTE, {CONNACK}),
    38: (PAIR, {CONNECT, CONNACK, PUBLISH, PUBACK, PUBREC, PUBREL, PUBCOMP, SUBSCRIBE, SUBACK,
                UNSUBSCRIBE, UNSUBACK, DISCONNECT, AUTH, WILL}),
    39: (FOUR, {CONNECT, CONNACK}), 40: (BYTE, {CONNACK}), 41: (BYTE, {CONNACK}),
    42: (BYTE, {CONNACK}),
}
REPEATABLE = {11, 38}
PROP_NAMES = {
    1: "PayloadFormatIndicator", 2: "MessageExpiryInterval", 3: "ContentType", 8: "ResponseTopic",
    9: "CorrelationData", 11: "SubscriptionIdentifier", 17: "SessionExpiryInterval",
    18: "AssignedClientIdentifier", 19: "ServerKeepAlive", 21: "AuthenticationMethod",
    22: "AuthenticationData", 23: "RequestProblemInformation", 24: "WillDelayInterval",
    25: "RequestResponseInformation", 26: "ResponseInformation", 28: "ServerReference",
    31: "ReasonString", 33: "ReceiveMaximum", 34: "TopicAliasMaximum", 35: "TopicAlias",
    36: "MaximumQoS", 37: "RetainAvailable", 38: "UserProperty", 39: "MaximumPacketSize",
    40: "WildcardSubscriptionAvailable", 41: "SubscriptionIdentifierAvailable",
    42: "SharedSubscriptionAvailable",
}

# reason codes: value -> set of packet types (MQTT 5.0 table 2-6)
REASONS = {
    0: {CONNACK, PUBACK, PUBREC, PUBREL, PUBCOMP, UNSUBACK, AUTH, DISCONNECT, SUBACK},
    1: {SUBACK}, 2: {SUBACK}, 4: {DISCONNECT}, 16: {PUBACK, PUBREC}, 17: {UNSUBACK},
    24: {AUTH}, 25: {AUTH},
    128: {CONNACK, PUBACK, PUBREC, SUBACK, UNSUBACK, DISCONNECT},
    129: {CONNACK, DISCONNECT}, 130: {CONNACK, DISCONNECT},
    131: {CONNACK, PUBACK, PUBREC, SUBACK, UNSUBACK, DISCONNECT},
    132: {CONNACK}, 133: {CONNACK}, 134: {CONNACK},
    135: {CONNACK, PUBACK, PUBREC, SUBACK, UNSUBACK, DISCONNECT},
    136: {CONNACK}, 137: {CONNACK, DISCONNECT}, 138: {CONNACK}, 139: {DISCONNECT},
    140: {CONNACK, DISCONNECT}, 141: {DISCONNECT}, 142: {DISCONNECT},
    143: {SUBACK, UNSUBACK, DISCONNECT}, 144: {CONNACK, PUBACK, PUBREC, DISCONNECT},
    145: {PUBACK, PUBREC, SUBACK, UNSUBACK}, 146: {PUBREL, PUBCOMP}, 147: {DISCONNECT},
    148: {DISCONNECT}, 149: {CONNACK, DISCONNECT}, 150: {DISCONNECT},
    151: {CONNACK, PUBACK, PUBREC, SUBACK, DISCONNECT}, 152: {DISCONNECT},
    153: {CONNACK, PUBACK, PUBREC, DISCONNECT}, 154: {CONNACK, DISCONNECT},
    155: {CONNACK, DISCONNECT}, 156: {CONNACK, DISCONNECT}, 157: {CONNACK, DISCONNECT},
    158: {SUBACK, DISCONNECT}, 159: {CONNACK, DISCONNECT}, 160: {DISCONNECT},
    161: {SUBACK, DISCONNECT}, 162: {SUBACK, DISCONNECT},
}


def props_enc(props) -> bytes:
    """props: list of (id, value) in the order to be written."""
    body = bytearray()
    for pid, val in props:
        ty = PROPS[pid][0]
        body += vbi_enc(pid)
        if ty == BYTE:
            body.append(val)
        elif ty == TWO:
            body += u16(val)
        elif ty == FOUR:
            body += struct.pack("!L", val)
        elif ty == VARINT:
            body += vbi_enc(val)
        elif ty in (BIN, STR):
            body += bin16(val)
        elif ty == PAIR:
            body += bin16(val[0]) + bin16(val[1])
    return vbi_enc(len(body)) + bytes(body)


def props_dec(b: bytes, pos: int, ptype: int):
    """strict decode. returns (list of (id, value), newpos)."""
    n, pos = vbi_dec(b, pos)
    end = pos + n
    if end > len(b):
        raise Malformed("props truncated")
    out = []
    seen = set()
    while pos < end:
        pid, pos = vbi_dec(b, pos)
        if pid not in PROPS:
            raise Malformed(f"unknown property {pid}")
        ty, pkts = PROPS[pid]
        if ptype not in pkts:
            raise Malformed(f"property {pid} not allowed in {ptype}")
        if pid in seen and pid not in REPEATABLE:
            raise Malformed(f"property {pid} repeated")
        seen.add(pid)
        if ty == BYTE:
            if pos + 1 > end:
                raise Malformed("trunc")
            val = b[pos]
            pos += 1
        elif ty == TWO:
            val, pos = rd_u16(b, pos)
        elif ty == FOUR:
            if pos + 4 > end:
                raise Malformed("trunc")
            val = struct.unpack("!L", bytes(b[pos:pos + 4]))[0]
            pos += 4
        elif ty == VARINT:
            val, pos = vbi_dec(b, pos)
        elif ty == BIN:
            val, pos = rd_bin(b, pos)
        elif ty == STR:
            val, pos = rd_str(b, pos)
        else:
            k, pos = rd_str(b, pos)
            v, pos = rd_str(b, pos)
            val = (k, v)
        if pos > end:
            raise Malformed("property overruns block")
        out.append((pid, val))
    return out, pos


# ---------------------------------------------------------------- packets: broker -> client encoders
def fixed(ptype: int, flags: int, body: bytes) -> bytes:
    return bytes([(ptype << 4) | flags]) + vbi_enc(len(body)) + bytes(body)


def enc_connack(proto, sp=0, rc=0, props=None) -> bytes:
    body = bytes([sp & 1, rc])
    if proto == 5:
        body += props_enc(props or [])
    return fixed(CONNACK, 0, body)


def enc_publish(proto, topic: bytes, payload: bytes = b"", qos=0, retain=0, dup=0, mid=0, props=None) -> bytes:
    body = bin16(topic)
    if qos > 0:
        body += u16(mid)
    if proto == 5:
        body += props_enc(props or [])
    body += bytes(payload)
    return fixed(PUBLISH, (dup << 3) | (qos << 1) | retain, body)


def enc_ack(proto, ptype, mid, rc=None, props=None) -> bytes:
    """PUBACK/PUBREC/PUBREL/PUBCOMP. rc None => short form."""
    flags = 2 if ptype == PUBREL else 0
    body = u16(mid)
    if proto == 5 and (rc is not None or props is not None):
        body += bytes([rc or 0])
        if props is not None:
            body += props_enc(props)
    return fixed(ptype, flags, body)


def enc_suback(proto, mid, codes, props=None) -> bytes:
    body = u16(mid)
    if proto == 5:
        body += props_enc(props or [])
    body += bytes(codes)
    return fixed(SUBACK, 0, body)


def enc_unsuback(proto, mid, codes=(), props=None) -> bytes:
    body = u16(mid)
    if proto == 5:
        body += props_enc(props or []) + bytes(codes)
    return fixed(UNSUBACK, 0, body)


def enc_pingresp() -> bytes:
    return fixed(PINGRESP, 0, b"")


def enc_disconnect(rc=None, props=None) -> bytes:
    body = b""
    if rc is not None or props is not None:
        body = bytes([rc or 0])
        if props is not None:
            body += props_enc(props)
    return fixed(DISCONNECT, 0, body)


# ---------------------------------------------------------------- packets: client -> broker strict decoder
def split_packets(stream: bytes):
    """split a byte stream into (complete packets as bytes, trailing incomplete bytes)."""
    pkts = []
    pos = 0
    while pos < len(stream):
        if pos + 1 >= len(stream):
            break
        try:
            n, p2 = vbi_dec(stream, pos + 1)
        except Malformed as e:
            if "truncated" in str(e):
                break
            raise
        if p2 + n > len(stream):
            break
        pkts.append(bytes(stream[pos:p2 + n]))
        pos = p2 + n
    return pkts, bytes(stream[pos:])


def dec_client_packet(pkt: bytes, proto: int) -> dict:
    """strict decoder for one complete client-originated control packet."""
    ptype = pkt[0] >> 4
    flags = pkt[0] & 0x0F
    rl, pos = vbi_dec(pkt, 1)
    if pos + rl != len(pkt):
        raise Malformed("length mismatch")
    b = pkt
    d = {"type": NAMES.get(ptype, str(ptype)), "ptype": ptype, "rl": rl, "rl_bytes": pos - 1}
    if ptype == CONNECT:
        if flags != 0:
            raise Malformed("connect flags")
        name, pos = rd_str(b, pos)
        level = b[pos]
        cflags = b[pos + 1]
        pos += 2
        ka, pos = rd_u16(b, pos)
        bridge = bool(level & 0x80)
        level &= 0x7F
        if (name, level) not in ((b"MQIsdp", 3), (b"MQTT", 4), (b"MQTT", 5)):
            raise Malformed("protocol name/level")
        if level != proto:
            raise Malformed("unexpected protocol level")
        if cflags & 1:
            raise Malformed("reserved connect flag")
        d.update(proto=level, bridge=bridge, clean=bool(cflags & 2), keepalive=ka)
        if level == 5:
            d["props"], pos = props_dec(b, pos, CONNECT)
        d["client_id"], pos = rd_str(b, pos)
        will = bool(cflags & 4)
        wq = (cflags >> 3) & 3
        wr = bool(cflags & 0x20)
        if not will and (wq or wr):
            raise Malformed("will flags without will")
        if wq == 3:
            raise Malformed("will qos 3")
        if will:
            w = {"qos": wq, "retain": wr}
            if level == 5:
                w["props"], pos = props_dec(b, pos, WILL)
            w["topic"], pos = rd_str(b, pos)
            w["payload"], pos = rd_bin(b, pos)
            d["will"] = w
        else:
            d["will"] = None
        if cflags & 0x80:
            d["username"], pos = rd_str(b, pos)
        else:
            d["username"] = None
        if cflags & 0x40:
            if level != 5 and not cflags & 0x80:
                raise Malformed("password without username")
            d["password"], pos = rd_bin(b, pos)
        else:
            d["password"] = None
        if pos != len(b):
            raise Malformed("trailing bytes in CONNECT")
    elif ptype == PUBLISH:
        qos = (flags >> 1) & 3
        if qos == 3:
            raise Malformed("qos 3")
        dup = bool(flags & 8)
        if qos == 0 and dup:
            raise Malformed("dup on qos0")
        topic, pos = rd_str(b, pos)
        if b"+" in topic or b"#" in topic:
            raise Malformed("wildcard in topic name")
        if proto != 5 and len(topic) == 0:
            raise Malformed("empty topic")
        mid = None
        if qos:
            mid, pos = rd_u16(b, pos)
            if mid == 0:
                raise Malformed("mid 0")
        props = None
        if proto == 5:
            props, pos = props_dec(b, pos, PUBLISH)
        d.update(qos=qos, dup=dup, retain=bool(flags & 1), topic=topic, mid=mid, props=props,
                 payload=bytes(b[pos:]))
    elif ptype in (PUBACK, PUBREC, PUBREL, PUBCOMP):
        if flags != (2 if ptype == PUBREL else 0):
            raise Malformed("ack flags")
        mid, pos = rd_u16(b, pos)
        if mid == 0:
            raise Malformed("mid 0")
        rc, props = None, None
        if proto == 5 and pos < len(b):
            rc = b[pos]
            pos += 1
            if ptype not in REASONS.get(rc, ()):
                raise Malformed("reason code")
            if pos < len(b):
                props, pos = props_dec(b, pos, ptype)
        if pos != len(b):
            raise Malformed("trailing bytes in ack")
        d.update(mid=mid, rc=rc, props=props)
    elif ptype in (SUBSCRIBE, UNSUBSCRIBE):
        if flags != 2:
            raise Malformed("sub flags")
        mid, pos = rd_u16(b, pos)
        if mid == 0:
            raise Malformed("mid 0")
        props = None
        if proto == 5:
            props, pos = props_dec(b, pos, ptype)
        filters = []
        while pos < len(b):
            f, pos = rd_str(b, pos)
            if not valid_filter(f):
                raise Malformed(f"invalid filter {f!r}")
            if ptype == SUBSCRIBE:
                if pos >= len(b):
                    raise Malformed("missing options")
                o = b[pos]
                pos += 1
                if proto == 5:
                    if o & 0xC0 or (o & 3) == 3 or ((o >> 4) & 3) == 3:
                        raise Malformed("bad subscription options")
                    filters.append((f, {"qos": o & 3, "nl": bool(o & 4), "rap": bool(o & 8), "rh": (o >> 4) & 3}))
                else:
                    if o > 2:
                        raise Malformed("bad requested qos")
                    filters.append((f, o))
            else:
                filters.append(f)
        if not filters:
            raise Malformed("no filters")
        d.update(mid=mid, props=props, filters=filters)
    elif ptype in (PINGREQ, PINGRESP):
        # (PINGRESP: the client answers a PINGREQ if a peer sends one, as a bridge would)
        if flags != 0 or rl != 0:
            raise Malformed("ping")
    elif ptype == DISCONNECT:
        if flags != 0:
            raise Malformed("disconnect flags")
        rc, props = None, None
        if proto == 5:
            if pos < len(b):
                rc = b[pos]
                pos += 1
                if DISCONNECT not in REASONS.get(rc, ()):
                    raise Malformed("reason code")
                if pos < len(b):
                    props, pos = props_dec(b, pos, DISCONNECT)
            if pos != len(b):
                raise Malformed("trailing")
        elif rl != 0:
            raise Malformed("v3 disconnect with body")
        d.update(rc=rc, props=props)
    else:
        raise Malformed(f"client must not send packet type {ptype}")
    return d


def valid_filter(f: bytes) -> bool:
    """MQTT 4.7.1 topic filter grammar."""
    if len(f) == 0 or len(f) > 65535:
        return False
    levels = f.split(b"/")
    for i, lv in enumerate(levels):
        if b"#" in lv and (lv != b"#" or i != len(levels) - 1):
            return False
        if b"+" in lv and lv != b"+":
            return False
    return True


def spec_match(filt: str, topic: str) -> bool:
    """MQTT 4.7 matching, reference implementation (valid filter, valid topic)."""
    fl = filt.split("/")
    tl = topic.split("/")
    if topic.startswith("$") and fl[0] in ("+", "#"):
        return False
    i = 0
    while i < len(fl):
        f = fl[i]
        if f == "#":
            return True
        if i >= len(tl):
            return False
        if f != "+" and f != tl[i]:
            return False
        i += 1
    return i == len(tl)


# ---------------------------------------------------------------- RFC 6455 frames
def ws_frame(payload: bytes, opcode=2, fin=1, mask=None) -> bytes:
    n = len(payload)
    h = bytearray([(fin << 7) | opcode])
    mb = 0x80 if mask is not None else 0
    if n < 126:
        h.append(mb | n)
    elif n < 65536:
        h.append(mb | 126)
        h += struct.pack("!H", n)
    else:
        h.append(mb | 127)
        h += struct.pack("!Q", n)
    if mask is not None:
        h += bytes(mask)
        payload = bytes(c ^ mask[i % 4] for i, c in enumerate(payload))
    return bytes(h) + bytes(payload)


def ws_parse(stream: bytes, require_client_rules=True):
    """parse complete frames from a client->server byte stream.
    returns (frames, rest); frame = dict(fin, opcode, masked, payload, minimal)"""
    frames = []
    pos = 0
    while True:
        if pos + 2 > len(stream):
            break
        b0, b1 = stream[pos], stream[pos + 1]
        fin, rsv, opcode = b0 >> 7, (b0 >> 4) & 7, b0 & 0x0F
        masked = b1 >> 7
        n = b1 & 0x7F
        p = pos + 2
        minimal = True
        if n == 126:
            if p + 2 > len(stream):
                break
            n = struct.unpack("!H", stream[p:p + 2])[0]
            p += 2
            minimal = n >= 126
        elif n == 127:
            if p + 8 > len(stream):
                break
            n = struct.unpack("!Q", stream[p:p + 8])[0]
            p += 8
            minimal = n >= 65536
        key = None
        if masked:
            if p + 4 > len(stream):
                break
            key = stream[p:p + 4]
            p += 4
        if p + n > len(stream):
            break
        payload = bytes(stream[p:p + n])
        if key is not None:
            payload = bytes(c ^ key[i % 4] for i, c in enumerate(payload))
        frames.append({"fin": fin, "rsv": rsv, "opcode": opcode, "masked": masked,
                       "payload": payload, "minimal": minimal})
        pos = p + n
    return frames, bytes(stream[pos:])
