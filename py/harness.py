"""Helpers to build and drive a real paho client inside the fake world."""
from __future__ import annotations

import warnings

import wire
from world import World, name_locks, pc, raw

warnings.simplefilter("ignore", DeprecationWarning)

V1 = pc.CallbackAPIVersion.VERSION1
V2 = pc.CallbackAPIVersion.VERSION2
PROTO = {3: pc.MQTTv31, 4: pc.MQTTv311, 5: pc.MQTTv5}


def mk_client(world: World, proto=4, clean=True, api=2, transport="tcp", cid="cid", **kw):
    world.websocket = (transport == "websockets")
    world.install()
    args = dict(client_id=cid, protocol=PROTO[proto], transport=transport)
    if proto != 5:
        args["clean_session"] = clean
    args.update(kw)
    c = pc.Client(V2 if api == 2 else V1, **args)
    name_locks(c)
    return c


def pump_read(c, limit=50):
    """call loop_read until the inbound queue is drained or the socket is gone."""
    rc = 0
    for _ in range(limit):
        s = raw(c.socket())
        if s is None or not s.inq:
            break
        rc = c.loop_read()
        if rc:
            break
    return rc


def connect(c, world: World, proto=4, keepalive=60, sp=0, rc=0, clean_start=None, props=None):
    if proto == 5 and clean_start is not None:
        r = c.connect("broker", 1883, keepalive, clean_start=clean_start, properties=props)
    elif proto == 5:
        r = c.connect("broker", 1883, keepalive, properties=props)
    else:
        r = c.connect("broker", 1883, keepalive)
    feed_pkt(world, wire.enc_connack(proto, sp=sp, rc=rc))
    pump_read(c)
    return r


def feed_pkt(world: World, data: bytes, sock=None):
    """deliver broker bytes on the current connection (as one WebSocket binary frame when the transport is websockets)"""
    s = sock or world.cur()
    s.feed(wire.ws_frame(data) if world.websocket else data)


def rc_name(rc) -> str:
    try:
        return pc.MQTTErrorCode(int(rc)).name.replace("MQTT_ERR_", "")
    except Exception:
        return str(rc)


def ws_payload(sock) -> bytes:
    """concatenated unmasked payload of the complete data frames the client wrote (after the HTTP upgrade)."""
    frames, _ = wire.ws_parse(bytes(sock.wire))
    return b"".join(f["payload"] for f in frames if f["opcode"] in (0, 2))


def client_bytes(sock, websocket=False) -> bytes:
    return ws_payload(sock) if websocket else bytes(sock.wire)
