"""Evaluate a seeded source change written by an independent sub-agent (see DESIGN.md, seeded changes).

  seed_eval.py confirm <mutdir> <name>     checks done in the agent's scratch worktree (<mutdir>/wt), no /repo access:
                                           patch == worktree diff; demo fails on changed / passes on pristine code;
                                           the repository's suite still passes with the change
  seed_eval.py check <mutdir> <name> Cxx [Cyy ...]
                                           apply the patch to /repo, run the given checks, undo it straight afterwards
  seed_eval.py keep <mutdir> <name>        copy patch.diff, demo.py, meta.json (+ our results) to /verif/seeded/<name>/
Results accumulate in <mutdir>/out/verif_result.json.
"""
from __future__ import annotations

import json
import os
import shutil
import signal
import subprocess
import sys
import tempfile
import xml.etree.ElementTree as ET

VERIF = os.path.dirname(os.path.dirname(os.path.abspath(__file__)))
REPO = os.environ.get("PAHO_VERIF_REPO", "/repo")
PY = "/venv/bin/python"


def sh(cmd, **kw):
    return subprocess.run(cmd, capture_output=True, text=True, **kw)


def load(mutdir):
    p = os.path.join(mutdir, "out", "verif_result.json")
    return json.load(open(p)) if os.path.exists(p) else {}


def save(mutdir, d):
    json.dump(d, open(os.path.join(mutdir, "out", "verif_result.json"), "w"), indent=1)


def confirm(mutdir, name):
    wt, out = os.path.join(mutdir, "wt"), os.path.join(mutdir, "out")
    res = load(mutdir)
    patch = open(os.path.join(out, "patch.diff")).read()
    cur = sh(["git", "-C", wt, "diff"]).stdout
    res["patch_matches_worktree"] = cur.strip() == patch.strip()
    res["patch_files"] = sorted({l[6:] for l in patch.split("\n") if l.startswith("+++ b/")})
    res["patch_only_src"] = all(f.startswith("src/paho/mqtt/") for f in res["patch_files"])
    # pristine copy
    tmp = tempfile.mkdtemp(prefix="seedorig_")
    try:
        subprocess.run(f"git -C {wt} archive HEAD src | tar -x -C {tmp}", shell=True, check=True)
        demo = os.path.join(out, "demo.py")
        a = sh([PY, demo], env={**os.environ, "PYTHONPATH": os.path.join(wt, "src")}, timeout=600)
        b = sh([PY, demo], env={**os.environ, "PYTHONPATH": os.path.join(tmp, "src")}, timeout=600)
        res["demo_changed"] = {"rc": a.returncode, "out": (a.stdout + a.stderr)[-400:]}
        res["demo_original"] = {"rc": b.returncode, "out": (b.stdout + b.stderr)[-300:]}
        res["demo_ok"] = a.returncode == 1 and "PROPERTY VIOLATED" in a.stdout and b.returncode == 0
    finally:
        shutil.rmtree(tmp, ignore_errors=True)
    # the repository's suite in the worktree (with the change applied)
    base = json.load(open("/root/.vp/BASELINE.json"))
    junit = os.path.join(out, "suite.junit.xml")
    env = {**os.environ, "PYTHONPATH": os.path.join(wt, "src") + ":" + wt}

    def pre():
        signal.signal(signal.SIGINT, signal.SIG_DFL)
    subprocess.run([PY, "-m", "pytest", "-q", "-p", "no:cacheprovider", "--timeout=900", "--continue-on-collection-errors",
                    f"--junitxml={junit}"], cwd=wt, env=env, capture_output=True, text=True, preexec_fn=pre, timeout=3600)
    got = {}
    for tc in ET.parse(junit).iter("testcase"):
        n = tc.get("classname") + "::" + tc.get("name")
        bad = any(c.tag in ("failure", "error") for c in tc)
        skip = any(c.tag == "skipped" for c in tc)
        cur = "fail" if bad else ("skip" if skip else "pass")
        got[n] = "fail" if "fail" in (got.get(n), cur) else cur
    missing = [n for n in base["stable_pass"] if got.get(n) != "pass"]
    still = []
    for n in missing:
        cls, _, test = n.partition("::")
        parts = cls.split(".")
        node = ("/".join(parts[:-1]) + ".py::" + parts[-1] + "::" + test) if parts[-1][0].isupper() else ("/".join(parts) + ".py::" + test)
        ok = False
        burners = []
        for attempt in range(8):
            # TestCompatibility::test_callback_v*_mqtt3 lose a teardown race on an idle machine most of the time, on the
            # unmodified tree too, and win it under load (see bin/baseline): CPU load is added from the third attempt on
            if attempt == 2:
                burners = [subprocess.Popen([PY, "-c", "while True: pass"]) for _ in range(12)]
            p = subprocess.run([PY, "-m", "pytest", "-q", "-p", "no:cacheprovider", "--timeout=900", node], cwd=wt, env=env,
                               capture_output=True, text=True, preexec_fn=pre)
            last = p.stdout.strip().split("\n")[-1] if p.stdout.strip() else ""
            if p.returncode == 0 and "failed" not in last and "error" not in last:
                ok = True
                break
        for b in burners:
            b.kill()
        if not ok:
            still.append(n)
    res["suite"] = {"stable_pass": len(base["stable_pass"]), "first_run_not_passing": len(missing), "not_passing_after_reruns": still}
    res["suite_ok"] = not still
    save(mutdir, res)
    print(name, "patch_ok", res["patch_matches_worktree"], "demo_ok", res["demo_ok"], "suite_ok", res["suite_ok"], still[:3])


def check(mutdir, name, props):
    out = os.path.join(mutdir, "out")
    res = load(mutdir)
    patch = os.path.join(out, "patch.diff")
    st = sh(["git", "-C", REPO, "status", "--short"]).stdout.strip()
    if st:
        print("refusing: the repository working tree is not clean:", st[:200])
        return 2
    a = sh(["git", "-C", REPO, "apply", patch])
    if a.returncode != 0:
        print("patch does not apply:", a.stderr[:300])
        return 2
    res.setdefault("checks", {})
    try:
        for p in props:
            tier = "quick"
            r = sh([os.path.join(VERIF, "bin", "check"), p, "--tier", tier], timeout=7200)
            lines = [l for l in r.stdout.split("\n") if l.startswith("VIOLATION")]
            summ = [l for l in r.stdout.split("\n") if l.startswith(f"[{p}]")]
            entry = {"rc": r.returncode, "violation": lines[:1], "summary": summ[-1][:260] if summ else ""}
            if lines:
                path = lines[0].split("replay=")[1].split()[0]
                try:
                    d = json.load(open(path))
                    entry["kind"] = d.get("kind")
                    entry["clause"] = d.get("clause") or d.get("witness")
                    entry["detail"] = (d.get("detail") or "")[:300]
                    entry["broken"] = [b.get("kind") for b in d.get("broken_obligations", [])]
                except Exception as e:  # noqa: BLE001
                    entry["replay_error"] = str(e)
            res["checks"][p] = entry
            print(name, p, "rc", r.returncode, entry.get("kind"), entry.get("clause"), (entry.get("detail") or "")[:120])
    finally:
        sh(["git", "-C", REPO, "checkout", "--", "."])
        save(mutdir, res)
    return 0


def keep(mutdir, name):
    out = os.path.join(mutdir, "out")
    dst = os.path.join(VERIF, "seeded", name)
    os.makedirs(dst, exist_ok=True)
    for f in ("patch.diff", "demo.py"):
        shutil.copy(os.path.join(out, f), os.path.join(dst, f))
    meta = json.load(open(os.path.join(out, "meta.json")))
    meta["verified_by_us"] = load(mutdir)
    json.dump(meta, open(os.path.join(dst, "meta.json"), "w"), indent=1)
    print("kept", dst)


if __name__ == "__main__":
    cmd, mutdir, name = sys.argv[1:4]
    if cmd == "confirm":
        confirm(mutdir, name)
    elif cmd == "check":
        sys.exit(check(mutdir, name, sys.argv[4:]))
    elif cmd == "keep":
        keep(mutdir, name)
